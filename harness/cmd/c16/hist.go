package main

// hist: encoder HISTORY. The struct encoder keeps per-Encoder scratch state (the free list
// of field lists kStruct gathers its entries in), so "a struct encodes as the map/array its
// tags describe" must also hold for the second, third, ... struct value ONE Encoder encodes:
// later elements of a slice or map inside one value, later Encode calls after ResetBytes /
// Reset, and calls that follow a failed Encode.
//
// The stream is deterministic and seed-independent. Declarations: two and three levels of
// nested structs, every level in one of the flavours that select the general struct encoder
// (omitempty on all / one field, _struct omitempty, int and uint keys, toarray + omitempty, a
// name json must escape, more than 8 fields, a MissingFielder) or the simple one (control), the
// nested struct held by value, pointer, slice, map or interface, at the first, a middle or the
// last declared position and under a key sorting first, in the middle or last, always with
// outer fields still to emit after it. Every value is encoded
//
//	(a) by a fresh Encoder,
//	(b) by a long-lived Encoder that has encoded other values before (lifetimes of 2..9
//	    values; to []byte with ResetBytes, or to an io.Writer with Reset, in between; alone, by value, inside a
//	    []interface{} with its neighbours, inside a typed slice, inside a map; after an Encode
//	    that failed half way through a struct), and
//	(c) as an independently built model (ordered key/value lists and value lists built from
//	    the documented rules at EVERY level, no struct left in it) by a fresh Encoder,
//
// over five formats x Canonical on/off x StructToArray on/off, and (a) = (b) = (c) is required.

import (
	"bytes"
	"errors"
	"fmt"
	"reflect"
	"sort"
	"strconv"
	"strings"

	"verifharness/vh"

	"github.com/ugorji/go/codec"
)

type hflav int

const (
	flOmit    hflav = iota // every field omitempty
	flOmitOne              // one field omitempty
	flOmitAll              // _struct omitempty
	flInt                  // int keys
	flUint                 // uint keys
	flArrOmit              // toarray and one omitempty field
	flEsc                  // a name json must escape
	flWide                 // ten fields (scratch list of capacity 16)
	flSimple               // control: nothing that needs the general encoder
	nFlav
)

var flavNames = []string{"omit", "omit1", "omitall", "int", "uint", "arr-omit", "esc", "wide", "simple"}

type hcont int

const (
	cVal hcont = iota
	cPtr
	cSlice
	cMap
	cIface
	nCont
)

var contNames = []string{"value", "pointer", "slice", "map", "interface"}

// MissingFielder flavours (methods need compiled types); the nested value sits in an interface field.
type HistMF struct {
	A     int                    `codec:"c"`
	In    interface{}            `codec:"a"`
	B     string                 `codec:"e"`
	D     int                    `codec:"g"`
	Extra map[string]interface{} `codec:"-"`
}

func (x *HistMF) CodecMissingFields() map[string]interface{}     { return x.Extra }
func (x *HistMF) CodecMissingField(f []byte, v interface{}) bool { return false }

type HistMFLast struct {
	A     int                    `codec:"c"`
	B     string                 `codec:"e"`
	In    interface{}            `codec:"d"`
	D     int                    `codec:"g"`
	E     int                    `codec:"h"`
	Extra map[string]interface{} `codec:"-"`
}

func (x *HistMFLast) CodecMissingFields() map[string]interface{}     { return x.Extra }
func (x *HistMFLast) CodecMissingField(f []byte, v interface{}) bool { return false }

type HistMFIn struct {
	P     int                    `codec:"p"`
	Q     string                 `codec:"q"`
	R     int                    `codec:"r"`
	S     int                    `codec:"s"`
	Extra map[string]interface{} `codec:"-"`
}

func (x *HistMFIn) CodecMissingFields() map[string]interface{}     { return x.Extra }
func (x *HistMFIn) CodecMissingField(f []byte, v interface{}) bool { return false }

// HistBad fails half way through the general struct encoder, below a nested one (a Selfer
// that raises an error): the scratch lists of the two structs being emitted are not handed back.
type HistBad struct {
	A int      `codec:"a,omitempty"`
	N HistMFIn `codec:"b"`
	M struct {
		P int      `codec:"p,omitempty"`
		F HistFail `codec:"q"`
		R int      `codec:"r"`
	} `codec:"c"`
	D int `codec:"d"`
}

type HistFail struct{}

func (HistFail) CodecEncodeSelf(*codec.Encoder)  { panic(errors.New("HistFail")) }
func (*HistFail) CodecDecodeSelf(*codec.Decoder) {}

var mfType = reflect.TypeOf((*codec.MissingFielder)(nil)).Elem()

func isMF(rt reflect.Type) bool {
	return rt.Kind() == reflect.Struct && reflect.PointerTo(rt).Implements(mfType)
}

var histLeafNames = []string{"b", "d", "f", "h", "j", "l", "n", "p", "r", "t"}
var histLeafKeys = []string{"2", "4", "6", "8", "10", "12", "14", "16", "18", "20"}
var histChildNames = []string{"a", "e", "z"}
var histChildKeys = []string{"1", "5", "9"}
var histLeafTypes = []reflect.Type{reflect.TypeOf(0), reflect.TypeOf(""), reflect.TypeOf([]int(nil))}

// histStruct declares a struct of the given flavour with nLeaf plain fields and, if child is
// not nil, one more field holding child in container cont, declared at position pos and named
// by the sel-th child name (sorting before, among or after the plain fields' names).
func histStruct(fl hflav, nLeaf int, child reflect.Type, cont hcont, pos, sel int) reflect.Type {
	var fs []reflect.StructField
	switch fl {
	case flOmitAll:
		fs = append(fs, reflect.StructField{Name: "_struct", PkgPath: "main", Type: reflect.TypeOf(false), Tag: `codec:",omitempty"`})
	case flInt:
		fs = append(fs, reflect.StructField{Name: "_struct", PkgPath: "main", Type: reflect.TypeOf(false), Tag: `codec:",int"`})
	case flUint:
		fs = append(fs, reflect.StructField{Name: "_struct", PkgPath: "main", Type: reflect.TypeOf(false), Tag: `codec:",uint"`})
	case flArrOmit:
		fs = append(fs, reflect.StructField{Name: "_struct", PkgPath: "main", Type: reflect.TypeOf(false), Tag: `codec:",toarray"`})
	case flWide:
		nLeaf = 10
	}
	tagFor := func(name string, first bool) reflect.StructTag {
		switch fl {
		case flOmit, flWide:
			return reflect.StructTag(fmt.Sprintf(`codec:"%s,omitempty"`, name))
		case flOmitOne, flArrOmit:
			if first {
				return reflect.StructTag(fmt.Sprintf(`codec:"%s,omitempty"`, name))
			}
		case flEsc:
			if first {
				return reflect.StructTag(fmt.Sprintf(`codec:"%s<"`, name))
			}
		}
		return reflect.StructTag(fmt.Sprintf(`codec:"%s"`, name))
	}
	names, cnames := histLeafNames, histChildNames
	if fl == flInt || fl == flUint {
		names, cnames = histLeafKeys, histChildKeys
	}
	addChild := func() {
		var ft reflect.Type
		switch cont {
		case cVal:
			ft = child
		case cPtr:
			ft = reflect.PointerTo(child)
		case cSlice:
			ft = reflect.SliceOf(child)
		case cMap:
			ft = reflect.MapOf(reflect.TypeOf(""), child)
		default:
			ft = ifaceType
		}
		fs = append(fs, reflect.StructField{Name: "N", Type: ft, Tag: tagFor(cnames[sel], false)})
	}
	for i := 0; i < nLeaf; i++ {
		if child != nil && i == pos {
			addChild()
		}
		fs = append(fs, reflect.StructField{Name: fmt.Sprintf("F%d", i), Type: histLeafTypes[i%3], Tag: tagFor(names[i], i == 0)})
	}
	if child != nil && pos >= nLeaf {
		addChild()
	}
	return reflect.StructOf(fs)
}

// histFill sets v (a value of a type built above) from the counter *salt; about one plain
// field in four is left at its zero value (so that omitempty drops entries), a struct is never
// left entirely zero, and none of the memory shapes on which the builds' emptiness tests are
// known to disagree with the documentation (F05-1) is produced.
func histFill(v reflect.Value, salt *int, child reflect.Type, mapN int) {
	*salt++
	s := *salt
	t := v.Type()
	switch t.Kind() {
	case reflect.Int:
		v.SetInt(int64(s%97 + 1))
	case reflect.String:
		v.SetString("s" + strconv.Itoa(s%89))
	case reflect.Slice:
		n := 2
		if t.Elem().Kind() == reflect.Struct {
			n = 3
		}
		sl := reflect.MakeSlice(t, n, n)
		for i := 0; i < n; i++ {
			histFill(sl.Index(i), salt, child, mapN)
		}
		v.Set(sl)
	case reflect.Map:
		m := reflect.MakeMap(t)
		if t.Elem() == ifaceType {
			// the extra entries of a MissingFielder
			for i := 0; i < mapN; i++ {
				m.SetMapIndex(reflect.ValueOf([]string{"k", "ab", "zz"}[i%3]), reflect.ValueOf(s%7+i+1))
			}
		} else {
			for i := 0; i < mapN; i++ {
				e := reflect.New(t.Elem()).Elem()
				histFill(e, salt, child, mapN)
				m.SetMapIndex(reflect.ValueOf([]string{"k", "ab", "zz"}[i%3]), e)
			}
		}
		v.Set(m)
	case reflect.Ptr:
		if s%5 == 0 {
			return // nil
		}
		p := reflect.New(t.Elem())
		histFill(p.Elem(), salt, child, mapN)
		v.Set(p)
	case reflect.Interface:
		if child == nil {
			return
		}
		e := reflect.New(child)
		histFill(e.Elem(), salt, nil, mapN)
		if s%2 == 0 {
			v.Set(e) // a pointer in the interface
		} else {
			v.Set(e.Elem())
		}
	case reflect.Struct:
		k := 0
		for i := 0; i < t.NumField(); i++ {
			f := v.Field(i)
			if !f.CanSet() {
				continue
			}
			k++
			leaf := f.Kind() == reflect.Int || f.Kind() == reflect.String || (f.Kind() == reflect.Slice && f.Type().Elem().Kind() == reflect.Int)
			if leaf && (s+k)%4 == 0 && t.NumField() > 2 {
				continue
			}
			histFill(f, salt, child, mapN)
		}
	}
}

// deepModel builds, from the documented rules only and at every level, what v stands for:
// ordered key/value lists (MapBySlice) or value lists for structs, []interface{} for
// slices, map[string]interface{} for maps, the value itself for scalars.
func deepModel(v reflect.Value, canon, sta bool) interface{} {
	if !v.IsValid() {
		return nil
	}
	switch v.Kind() {
	case reflect.Ptr, reflect.Interface:
		if v.IsNil() {
			return nil
		}
		return deepModel(v.Elem(), canon, sta)
	case reflect.Slice:
		if v.IsNil() {
			return nil
		}
		if v.Type().Elem().Kind() == reflect.Int {
			return v.Interface()
		}
		out := make([]interface{}, v.Len())
		for i := range out {
			out[i] = deepModel(v.Index(i), canon, sta)
		}
		return out
	case reflect.Map:
		if v.IsNil() {
			return nil
		}
		out := map[string]interface{}{}
		for _, k := range v.MapKeys() {
			out[k.String()] = deepModel(v.MapIndex(k), canon, sta)
		}
		return out
	case reflect.Struct:
		rt := v.Type()
		if !v.CanAddr() {
			p := reflect.New(rt)
			p.Elem().Set(v)
			v = p.Elem()
		}
		ta, _, kt := specSopts(rt)
		var extra map[string]interface{}
		asArray := ta || sta
		if isMF(rt) {
			asArray = false // a MissingFielder is always a map
			extra = v.Addr().Interface().(codec.MissingFielder).CodecMissingFields()
		}
		type ent struct {
			name string
			val  interface{}
		}
		var ents []ent
		for _, f := range specFields(rt) {
			fv := rw(fieldAt(v, f.path, false))
			empty := docEmpty(fv)
			if !asArray && f.omit && empty {
				continue
			}
			if asArray && f.omit && empty && fv.IsValid() && isContainerKind(fv.Kind()) {
				ents = append(ents, ent{f.name, nil})
				continue
			}
			ents = append(ents, ent{f.name, deepModel(fv, canon, sta)})
		}
		if asArray {
			out := make([]interface{}, len(ents))
			for i := range ents {
				out[i] = ents[i].val
			}
			return out
		}
		var xk []string
		for k := range extra {
			xk = append(xk, k)
		}
		sort.Strings(xk) // (more than one extra entry only under Canonical)
		for _, k := range xk {
			ents = append(ents, ent{k, extra[k]})
		}
		if canon {
			sort.SliceStable(ents, func(a, b int) bool { return ents[a].name < ents[b].name })
		}
		out := mbs{}
		for _, e := range ents {
			var key interface{} = e.name
			switch kt {
			case 1:
				n, _ := strconv.ParseInt(e.name, 10, 64)
				key = n
			case 2:
				n, _ := strconv.ParseUint(e.name, 10, 64)
				key = n
			}
			out = append(out, key, e.val)
		}
		return out
	}
	return v.Interface()
}

type histVal struct {
	desc  string
	v     reflect.Value // addressable
	nests int           // levels of general-encoder structs on the deepest path
}

// histValues: the deterministic family, for one Canonical setting (maps hold two entries only
// when the order is fixed).
func histValues(canon bool) []histVal {
	mapN := 1
	if canon {
		mapN = 2
	}
	salt := 0
	var out []histVal
	add := func(desc string, rt reflect.Type, child reflect.Type, nests int) {
		v := reflect.New(rt).Elem()
		histFill(v, &salt, child, mapN)
		out = append(out, histVal{desc, v, nests})
	}
	general := func(fl hflav) int {
		if fl == flSimple {
			return 0
		}
		return 1
	}
	mfIn := reflect.TypeOf(HistMFIn{})
	// (declared position, key order) of the nested field among 4 plain fields
	places := [][2]int{{0, 0}, {0, 2}, {1, 0}, {1, 1}, {2, 1}, {3, 0}, {4, 2}}
	for flo := hflav(0); flo < nFlav; flo++ {
		for fli := hflav(0); fli <= nFlav; fli++ { // nFlav: the MissingFielder as the nested struct
			for pi, pl := range places {
				for c := hcont(0); c < nCont; c++ {
					// thin the grid: every (outer, inner, place) with two containers, every container with every place
					if (int(flo)+int(fli)+pi+int(c))%5 > 1 && !(flo == flOmit && fli == flOmit) {
						continue
					}
					var in reflect.Type
					iname, ig := "mf", 1
					if fli == nFlav {
						in = mfIn
					} else {
						in = histStruct(fli, 4, nil, 0, 0, 0)
						iname, ig = flavNames[fli], general(fli)
					}
					rt := histStruct(flo, 4, in, c, pl[0], pl[1])
					add(fmt.Sprintf("%s{%s %s at %d key#%d}", flavNames[flo], contNames[c], iname, pl[0], pl[1]), rt, in, general(flo)+ig)
				}
			}
		}
	}
	// three levels: outer{ mid{ leaf } }, the nested struct early, by value / slice / pointer / interface
	lv3 := []hflav{flOmit, flInt, flArrOmit, flOmitAll, flWide, flSimple, flEsc}
	k := 0
	for _, a := range lv3 {
		for _, b := range lv3 {
			for _, c := range lv3 {
				k++
				if k%3 != 0 && !(a == b && b == c) {
					continue
				}
				leaf := histStruct(c, 5, nil, 0, 0, 0)
				midc, outc := []hcont{cVal, cSlice, cPtr, cIface}[k%4], []hcont{cSlice, cVal, cMap, cVal, cPtr}[k%5]
				mid := histStruct(b, 4, leaf, midc, k%3, k%2)
				rt := histStruct(a, 4, mid, outc, (k/3)%3, (k/2)%2)
				child := mid
				if outc != cIface && midc == cIface {
					child = leaf
				}
				add(fmt.Sprintf("%s{%s %s{%s %s}}", flavNames[a], contNames[outc], flavNames[b], contNames[midc], flavNames[c]), rt, child, general(a)+general(b)+general(c))
			}
		}
	}
	// MissingFielder outside, every flavour nested in it
	for fli := hflav(0); fli <= nFlav; fli++ {
		in, iname := mfIn, "mf"
		if fli < nFlav {
			in, iname = histStruct(fli, 4, nil, 0, 0, 0), flavNames[fli]
		}
		add("mf{interface "+iname+" first}", reflect.TypeOf(HistMF{}), in, 2)
		add("mf{interface "+iname+" middle}", reflect.TypeOf(HistMFLast{}), in, 2)
		mid := histStruct(flOmit, 4, in, cVal, 0, 0)
		add("mf{interface omit{value "+iname+"}}", reflect.TypeOf(HistMF{}), mid, 3)
	}
	return out
}

func histEncodeFresh(h codec.Handle, x interface{}) ([]byte, bool) {
	b, err := encode(h, x)
	return b, err == nil
}

func histStream(sum *vh.Summary) {
	type lifeOp int
	const (
		opBytesPtr lifeOp = iota // Encode(&v)
		opByValue                // Encode(v)
		opBatch                  // ResetBytes; Encode([]interface{}{&v, &next, &next2})
		opTyped                  // ResetBytes; Encode([]T{v, v, v})
		opInMap                  // ResetBytes; Encode(map[string]interface{}{"k": &v})
		nOps
	)
	opNames := []string{"Encode(&v)", "Encode(v)", "Encode([]interface{}{&v,&v1,&v2})", "Encode([]T{v,v,v})", "Encode(map[string]interface{}{k:&v})"}
	bad := &HistBad{A: 1, N: HistMFIn{P: 1, Q: "q", R: 2, S: 3}, D: 4}
	bad.M.P, bad.M.R = 5, 6
	for _, canon := range []bool{true, false} {
		vals := histValues(canon)
		for _, sta := range []bool{false, true} {
			models := make([]interface{}, len(vals))
			for i := range vals {
				models[i] = deepModel(vals[i].v, canon, sta)
			}
			for _, format := range encFormats {
				o := vh.Opts{"Canonical": canon, "StructToArray": sta}
				h := handleFor(format, o)
				for pass := 0; pass < 2; pass++ {
					// lifetimes of 2..9 values; the second pass walks the family backwards with other cuts
					var e *codec.Encoder
					var buf []byte
					var wbuf bytes.Buffer
					left, life, nth, failed, toWriter := 0, 0, 0, false, false
					reset := func() {
						if toWriter {
							wbuf.Reset()
							e.Reset(&wbuf)
						} else {
							buf = nil
							e.ResetBytes(&buf)
						}
					}
					var hist []string
					for step := 0; step < len(vals); step++ {
						i := step
						if pass == 1 {
							i = len(vals) - 1 - step
						}
						if left == 0 {
							life++
							left = 2 + (life*3+pass)%8
							// two lifetimes in three write to a []byte (ResetBytes between values), one to an io.Writer (Reset)
							toWriter = life%3 == 2
							if toWriter {
								wbuf.Reset()
								e = codec.NewEncoder(&wbuf, h)
							} else {
								buf = nil
								e = codec.NewEncoderBytes(&buf, h)
							}
							nth, failed, hist = 0, false, nil
						}
						left--
						nth++
						if nth == 3 && life%4 == 0 {
							// a failed Encode in this Encoder's past
							reset()
							if err := e.Encode(bad); err == nil {
								sum.FailC("hist", "hist:unsupported-value-accepted", "a Selfer field that raises an error was encoded without an error", map[string]interface{}{"format": format, "build": buildName})
							}
							failed = true
							hist = append(hist, "FAILED Encode(HistBad)")
						}
						op := lifeOp((step + life + pass) % int(nOps))
						hv := vals[i]
						var x, model interface{}
						switch op {
						case opBytesPtr:
							x, model = hv.v.Addr().Interface(), models[i]
						case opByValue:
							x, model = hv.v.Interface(), models[i]
						case opBatch:
							i1, i2 := (i+1)%len(vals), (i+7)%len(vals)
							x = []interface{}{hv.v.Addr().Interface(), vals[i1].v.Addr().Interface(), vals[i2].v.Interface()}
							model = []interface{}{models[i], models[i1], models[i2]}
						case opTyped:
							sl := reflect.MakeSlice(reflect.SliceOf(hv.v.Type()), 3, 3)
							for k := 0; k < 3; k++ {
								sl.Index(k).Set(hv.v)
							}
							x, model = sl.Interface(), []interface{}{models[i], models[i], models[i]}
						default:
							x, model = map[string]interface{}{"k": hv.v.Addr().Interface()}, map[string]interface{}{"k": models[i]}
						}
						var got []byte
						var gerr error
						reset()
						gerr = e.Encode(x)
						if toWriter {
							got = append([]byte(nil), wbuf.Bytes()...)
						} else {
							got = buf
						}
						if pl, ok := encoderPool(e); !ok {
							sum.FailC("hist", "hist:encoder-layout", "the Encoder's scratch-list pool (encoderBase.slist) cannot be read by reflection", map[string]interface{}{"format": format})
						} else {
							seen := map[uintptr]bool{}
							for _, x := range pl {
								if seen[x[0]] {
									sum.FailC("hist", "hist:one-list-pooled-twice", "after an Encode the Encoder's scratch-list pool holds the same backing array twice",
										map[string]interface{}{"format": format, "opts": o.String(), "build": buildName, "decl": hv.desc, "op": opNames[op], "nth_value_of_this_encoder": nth,
											"earlier_values": append([]string(nil), hist...), "pooled_lists": len(pl)})
									break
								}
								seen[x[0]] = true
							}
							sum.Dist[fmt.Sprintf("hist.pooled%d", len(pl))]++
						}
						fresh, fok := histEncodeFresh(h, x)
						want, wok := histEncodeFresh(h, model)
						cj := map[string]interface{}{"format": format, "opts": o.String(), "build": buildName, "decl": hv.desc, "type": hv.v.Type().String(),
							"value_as_model": fmt.Sprintf("%v", models[i]), "op": opNames[op], "nth_value_of_this_encoder": nth, "earlier_values": append([]string(nil), hist...),
							"after_failed_encode": failed, "encoder": map[bool]string{false: "NewEncoderBytes, ResetBytes before every Encode", true: "NewEncoder(io.Writer), Reset before every Encode"}[toWriter]}
						hist = append(hist, opNames[op]+" "+hv.desc)
						sum.Count("hist."+format, fmt.Sprintf("hist/%s/c%v/a%v/%s/op%d/first%v/failed%v", format, canon, sta, hv.desc, op, nth == 1, failed))
						if !fok || !wok || gerr != nil {
							cj["err_reused"], cj["err_fresh"], cj["err_model"] = gerr != nil, !fok, !wok
							sum.FailC("hist", "hist:encode-error", "encoding a struct value or its model failed", cj)
							continue
						}
						if !bytes.Equal(fresh, want) {
							cj["got"], cj["want"] = vh.Hex(fresh), vh.Hex(want)
							sum.FailC("hist", fmt.Sprintf("hist:fresh-encoder:struct-differs-from-model:nest%d", hv.nests),
								"encoding of a value holding nested structs (fresh Encoder) differs from the encoding of the maps/arrays their tags describe", cj)
						}
						if !bytes.Equal(got, fresh) {
							cj["got"], cj["want"] = vh.Hex(got), vh.Hex(fresh)
							cls := "hist:reused-encoder-differs-from-fresh"
							if failed {
								cls = "hist:reused-encoder-after-failed-encode-differs-from-fresh"
							}
							sum.FailC("hist", fmt.Sprintf("%s:nest%d", cls, hv.nests),
								"an Encoder that has encoded other values before encodes a struct value differently from a fresh Encoder", cj)
						}
					}
				}
			}
		}
	}
}

// encoderPool reads, by reflection, the backing arrays and capacities of the scratch lists an
// Encoder keeps pooled (Encoder.encoderI -> *encoderXxx -> encoderBase.slist).
func encoderPool(e *codec.Encoder) (out [][2]uintptr, ok bool) {
	defer func() {
		if recover() != nil {
			ok = false
		}
	}()
	v := reflect.ValueOf(e).Elem().Field(0).Elem().Elem().FieldByName("slist")
	if !v.IsValid() || v.Kind() != reflect.Slice {
		return nil, false
	}
	for i := 0; i < v.Len(); i++ {
		out = append(out, [2]uintptr{v.Index(i).Pointer(), uintptr(v.Index(i).Cap())})
	}
	return out, true
}

// poolStream drives sfiRvFreeList.get / put through the hook: operation sequences in the
// order kStruct issues them (nested: get outer, get inner, put inner, ..., put outer; repeated
// on the same pool), with requested lengths on both sides of the capacity steps 8, 16, 32, and
// sequences that hand lists back in another order. Direct oracle: a list that get hands out is
// neither pooled any more nor held by somebody else, is long enough, and the pool never holds
// one list twice. Every sequence is also a model case (C16/Scratch.v pool_get / pool_put).
func poolStream(r *vh.Rng, n int, cv *vh.Cases, sum *vh.Summary, id *int) {
	type op struct {
		get bool
		n   int // get: requested length; put: index into the held lists (stack position from the top)
	}
	var seqs [][]op
	lens := []int{1, 3, 7, 8, 9, 15, 16, 17, 33, 4}
	// nested shapes, as kStruct: depth d, repeated k times, widths from lens
	var nest func(depth, w int) []op
	nest = func(depth, w int) []op {
		o := []op{{true, lens[w%len(lens)]}}
		if depth > 1 {
			o = append(o, nest(depth-1, w+1)...)
			if w%2 == 0 {
				o = append(o, nest(depth-1, w+3)...) // a second nested struct under the same outer one
			}
		}
		return append(o, op{false, 0})
	}
	for depth := 1; depth <= 4; depth++ {
		for w := 0; w < len(lens); w++ {
			for reps := 1; reps <= 3; reps++ {
				var s []op
				for k := 0; k < reps; k++ {
					s = append(s, nest(depth, w+k*(depth-1))...)
				}
				seqs = append(seqs, s)
			}
		}
	}
	// any order of handing back
	for i := 0; i < n; i++ {
		var s []op
		held := 0
		for k := 0; k < 6+r.Intn(24); k++ {
			if held == 0 || (held < 6 && r.Chance(1, 2)) {
				s = append(s, op{true, lens[r.Intn(len(lens))] + r.Intn(2)})
				held++
			} else {
				s = append(s, op{false, r.Intn(held)})
				held--
			}
		}
		for ; held > 0; held-- {
			s = append(s, op{false, r.Intn(held)})
		}
		seqs = append(seqs, s)
	}
	for si, s := range seqs {
		var p codec.VerifC16Slist
		var held [][2]int // (id, cap)
		var ops, obs []string
		var trace []string
		for _, o := range s {
			var a, c int
			if o.get {
				a, c = p.Get(o.n)
				ops = append(ops, fmt.Sprintf("PGet %d", o.n))
				trace = append(trace, fmt.Sprintf("get(%d)=list%d/cap%d", o.n, a, c))
			} else {
				k := len(held) - 1 - o.n
				a, c = held[k][0], held[k][1]
				held = append(held[:k], held[k+1:]...)
				p.Put(a)
				ops = append(ops, fmt.Sprintf("PPut %d%%N %d", a, c))
				trace = append(trace, fmt.Sprintf("put(list%d)", a))
			}
			pool := p.Pool()
			var pp []string
			seen := map[int]bool{}
			cj := map[string]interface{}{"operations": append([]string(nil), trace...), "pool_after": fmt.Sprint(pool), "sequence": si}
			for _, x := range pool {
				pp = append(pp, fmt.Sprintf("(%d%%N, %d)", x[0], x[1]))
				if seen[x[0]] {
					sum.FailC("pool", "pool:one-list-pooled-twice", "the Encoder's scratch-list pool holds the same backing array twice", cj)
				}
				seen[x[0]] = true
				if o.get && x[0] == a {
					sum.FailC("pool", "pool:handed-out-list-still-pooled", "sfiRvFreeList.get handed out a scratch list that is still in the pool (the next struct to be encoded gets the same backing array)", cj)
				}
			}
			if o.get {
				for _, hx := range held {
					if hx[0] == a {
						sum.FailC("pool", "pool:handed-out-list-already-held", "sfiRvFreeList.get handed out a scratch list that another struct being encoded still holds", cj)
					}
				}
				if c < o.n {
					sum.FailC("pool", "pool:list-too-short", "sfiRvFreeList.get handed out a list shorter than requested", cj)
				}
				held = append(held, [2]int{a, c})
			}
			obs = append(obs, fmt.Sprintf("(%d%%N, %d, [%s])", a, c, strings.Join(pp, "; ")))
		}
		*id++
		cv.Add(fmt.Sprintf("CPool %d [%s] [%s]", *id, strings.Join(ops, "; "), strings.Join(obs, "; ")))
		sum.ModelCases++
		sum.Count("pool", fmt.Sprintf("pool/%s", strings.Join(ops, ",")))
	}
}

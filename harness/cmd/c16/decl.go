package main

// Struct declarations as data, read off reflect.Type (independent of the codec
// package), the documented field rules applied to them in Go (the harness-side
// reference used by the direct oracles), and Coq term printers.

import (
	"fmt"
	"math"
	"reflect"
	"sort"
	"strings"
	"unsafe"
)

var tids = map[reflect.Type]int{}

func tidOf(rt reflect.Type) int {
	if id, ok := tids[rt]; ok {
		return id
	}
	id := len(tids) + 1
	tids[rt] = id
	return id
}

func coqStr(s string) string {
	if len(s) == 0 {
		return "[]"
	}
	var sb strings.Builder
	sb.WriteString("[")
	for i := 0; i < len(s); i++ {
		if i > 0 {
			sb.WriteByte(';')
		}
		fmt.Fprintf(&sb, "%d", s[i])
	}
	sb.WriteString("]%N")
	return sb.String()
}

func coqB(b bool) string {
	if b {
		return "true"
	}
	return "false"
}

// coqType prints the fty term of a Go type.
func coqType(t reflect.Type) string {
	switch t.Kind() {
	case reflect.Bool:
		return "TBool"
	case reflect.Int, reflect.Int8, reflect.Int16, reflect.Int32, reflect.Int64:
		return "TInt"
	case reflect.Uint, reflect.Uint8, reflect.Uint16, reflect.Uint32, reflect.Uint64, reflect.Uintptr:
		return "TUint"
	case reflect.Float32:
		return "TF32"
	case reflect.Float64:
		return "TF64"
	case reflect.String:
		return "TStr"
	case reflect.Slice:
		return "(TSlice " + coqType(t.Elem()) + ")"
	case reflect.Array:
		return fmt.Sprintf("(TArr %d %s)", t.Len(), coqType(t.Elem()))
	case reflect.Map:
		return "(TMap " + coqType(t.Key()) + " " + coqType(t.Elem()) + ")"
	case reflect.Ptr:
		return "(TPtr " + coqType(t.Elem()) + ")"
	case reflect.Interface:
		return "TIface"
	case reflect.Func, reflect.UnsafePointer:
		return "TFunc"
	case reflect.Struct:
		var sb strings.Builder
		fmt.Fprintf(&sb, "(TStruct %d%%N [", tidOf(t))
		for i := 0; i < t.NumField(); i++ {
			f := t.Field(i)
			if i > 0 {
				sb.WriteString("; ")
			}
			fmt.Fprintf(&sb, "mkField %s %s %s %s %s %s", coqStr(f.Name), coqB(f.PkgPath == ""), coqB(f.Anonymous),
				coqStr(f.Tag.Get("codec")), coqStr(f.Tag.Get("json")), coqType(f.Type))
		}
		sb.WriteString("])")
		return sb.String()
	}
	panic("coqType: unsupported kind " + t.Kind().String())
}

func coqZ(v int64) string {
	if v < 0 {
		return fmt.Sprintf("(%d)%%Z", v)
	}
	return fmt.Sprintf("%d%%Z", v)
}

// coqVal prints the mval term (memory representation) of a Go value.
func coqVal(v reflect.Value) string {
	switch v.Kind() {
	case reflect.Bool:
		return "(MBool " + coqB(v.Bool()) + ")"
	case reflect.Int, reflect.Int8, reflect.Int16, reflect.Int32, reflect.Int64:
		return "(MInt " + coqZ(v.Int()) + ")"
	case reflect.Uint, reflect.Uint8, reflect.Uint16, reflect.Uint32, reflect.Uint64, reflect.Uintptr:
		return fmt.Sprintf("(MUint %d%%N)", v.Uint())
	case reflect.Float32:
		return fmt.Sprintf("(MF32 %d%%N)", math.Float32bits(float32(v.Float())))
	case reflect.Float64:
		return fmt.Sprintf("(MF64 %d%%N)", math.Float64bits(v.Float()))
	case reflect.String:
		s := v.String()
		return "(MStr " + coqB(unsafe.StringData(s) == nil) + " " + coqStr(s) + ")"
	case reflect.Slice:
		if v.IsNil() {
			return "(MSlice None)"
		}
		return "(MSlice (Some " + coqValList(v) + "))"
	case reflect.Array:
		return "(MArr " + coqValList(v) + ")"
	case reflect.Map:
		if v.IsNil() {
			return "(MMap None)"
		}
		ks := v.MapKeys()
		sort.Slice(ks, func(i, j int) bool { return fmt.Sprint(ks[i]) < fmt.Sprint(ks[j]) })
		var parts []string
		for _, k := range ks {
			parts = append(parts, "("+coqVal(k)+", "+coqVal(v.MapIndex(k))+")")
		}
		return "(MMap (Some [" + strings.Join(parts, "; ") + "]))"
	case reflect.Ptr:
		if v.IsNil() {
			return "(MPtr None)"
		}
		return "(MPtr (Some " + coqVal(v.Elem()) + "))"
	case reflect.Interface:
		if v.IsNil() {
			return "(MIface None)"
		}
		return "(MIface (Some " + coqVal(v.Elem()) + "))"
	case reflect.Func, reflect.UnsafePointer:
		return "(MFunc " + coqB(v.IsNil()) + ")"
	case reflect.Struct:
		var parts []string
		for i := 0; i < v.NumField(); i++ {
			parts = append(parts, coqVal(v.Field(i)))
		}
		return "(MStruct [" + strings.Join(parts, "; ") + "])"
	}
	panic("coqVal: unsupported kind " + v.Kind().String())
}

func coqValList(v reflect.Value) string {
	var parts []string
	for i := 0; i < v.Len(); i++ {
		parts = append(parts, coqVal(v.Index(i)))
	}
	return "[" + strings.Join(parts, "; ") + "]"
}

func coqPath(p [][2]int) string {
	var parts []string
	for _, x := range p {
		parts = append(parts, fmt.Sprintf("(%d,%d)", x[0], x[1]))
	}
	return "[" + strings.Join(parts, ";") + "]"
}

// ---- the documented rules, in Go, over reflect only ----

type sfield struct {
	name string
	omit bool
	path [][2]int
	base reflect.Type // field type with its own pointers removed
	full reflect.Type
}

func (f sfield) depth() int { return len(f.path) - 1 }

func tagOf(f reflect.StructField) string {
	if s := f.Tag.Get("codec"); s != "" {
		return s
	}
	return f.Tag.Get("json")
}

func tagName(tag string) string {
	if i := strings.IndexByte(tag, ','); i >= 0 {
		return tag[:i]
	}
	return tag
}

func tagOptions(tag string) []string {
	i := strings.IndexByte(tag, ',')
	if i < 0 {
		return nil
	}
	return strings.Split(tag[i+1:], ",")
}

func hasOption(tag, o string) bool {
	for _, x := range tagOptions(tag) {
		if x == o {
			return true
		}
	}
	return false
}

func stripPtrs(t reflect.Type) (int, reflect.Type) {
	n := 0
	for t.Kind() == reflect.Ptr {
		t = t.Elem()
		n++
	}
	return n, t
}

// specSopts: the options on the struct's OWN _struct field.
func specSopts(rt reflect.Type) (toarray, omit bool, kt int) {
	for i := 0; i < rt.NumField(); i++ {
		f := rt.Field(i)
		if f.Name == "_struct" {
			tag := tagOf(f)
			toarray = hasOption(tag, "toarray")
			omit = hasOption(tag, "omitempty")
			for _, o := range tagOptions(tag) {
				switch o {
				case "int":
					kt = 1
				case "uint":
					kt = 2
				case "float":
					kt = 3
				case "string":
					kt = 0
				}
			}
			return
		}
	}
	return
}

func specCands(rt reflect.Type, omitall bool, prefix [][2]int) (out []sfield) {
	for j := 0; j < rt.NumField(); j++ {
		f := rt.Field(j)
		tag := tagOf(f)
		exported := f.PkgPath == ""
		nd, base := stripPtrs(f.Type)
		k := f.Type.Kind()
		// doc.go, Caveats
		if tag == "-" || k == reflect.Func || k == reflect.UnsafePointer {
			continue
		}
		if !exported && !f.Anonymous {
			continue
		}
		if !exported && f.Anonymous && (base.Kind() != reflect.Struct || k == reflect.Ptr) {
			continue
		}
		here := append(append([][2]int{}, prefix...), [2]int{j, nd})
		if f.Anonymous && base.Kind() == reflect.Struct && tagName(tag) == "" {
			out = append(out, specCands(base, omitall, here)...)
			continue
		}
		if !exported {
			continue
		}
		name := tagName(tag)
		if name == "" {
			name = f.Name
		}
		out = append(out, sfield{name, omitall || hasOption(tag, "omitempty"), here, base, f.Type})
	}
	return
}

func specFields(rt reflect.Type) []sfield {
	_, omitall, _ := specSopts(rt)
	cs := specCands(rt, omitall, nil)
	var out []sfield
	for i, f := range cs {
		beaten := false
		for j, g := range cs {
			if g.name == f.name && (g.depth() < f.depth() || (g.depth() == f.depth() && j < i)) {
				beaten = true
				break
			}
		}
		if !beaten {
			out = append(out, f)
		}
	}
	return out
}

// maxEmbedCount returns the largest number of times one struct type is inlined.
func maxEmbedCount(rt reflect.Type) int {
	cnt := map[reflect.Type]int{}
	var walk func(t reflect.Type)
	walk = func(t reflect.Type) {
		for j := 0; j < t.NumField(); j++ {
			f := t.Field(j)
			tag := tagOf(f)
			_, base := stripPtrs(f.Type)
			if tag == "-" || !f.Anonymous || base.Kind() != reflect.Struct || tagName(tag) != "" {
				continue
			}
			if f.PkgPath != "" && f.Type.Kind() == reflect.Ptr {
				continue
			}
			cnt[base]++
			walk(base)
		}
	}
	walk(rt)
	m := 0
	for _, c := range cnt {
		if c > m {
			m = c
		}
	}
	return m
}

// hasPromotedStructInfo: no own _struct field, but an embedded struct (any depth) declares one.
func hasPromotedStructInfo(rt reflect.Type) bool {
	for i := 0; i < rt.NumField(); i++ {
		if rt.Field(i).Name == "_struct" {
			return false
		}
	}
	var any func(t reflect.Type, top bool) bool
	any = func(t reflect.Type, top bool) bool {
		for i := 0; i < t.NumField(); i++ {
			f := t.Field(i)
			if !top && f.Name == "_struct" {
				return true
			}
			if f.Anonymous {
				_, b := stripPtrs(f.Type)
				if b.Kind() == reflect.Struct && any(b, false) {
					return true
				}
			}
		}
		return false
	}
	return any(rt, true)
}

// fieldNoAlloc: the field value along path, invalid if a nil pointer is crossed.
func fieldAt(v reflect.Value, path [][2]int, base bool) reflect.Value {
	for i, p := range path {
		v = v.Field(p[0])
		fv := v
		for k := 0; k < p[1]; k++ {
			if v.IsNil() {
				return reflect.Value{}
			}
			v = v.Elem()
		}
		if i == len(path)-1 && !base {
			return fv
		}
	}
	return v
}

// fieldAlloc: as fieldAt(base=true) but allocating nil pointers on the way.
func fieldAlloc(v reflect.Value, path [][2]int) reflect.Value {
	for _, p := range path {
		v = v.Field(p[0])
		for k := 0; k < p[1]; k++ {
			if v.IsNil() {
				v.Set(reflect.New(v.Type().Elem()))
			}
			v = v.Elem()
		}
	}
	return v
}

package main

// Generators: struct DECLARATIONS built at run time with reflect.StructOf, a
// corpus of fixed types for the shapes StructOf cannot build, values with
// controlled memory representation.

import (
	"fmt"
	"io"
	"math"
	"reflect"

	"verifharness/vh"
)

// ---- fixed corpus ----

type inner1 struct {
	A int
	B string `codec:"bee,omitempty"`
}
type Inner2 struct {
	A int `json:"a2"`
	C []int
}
type myint int
type MyInt int
type D3 struct{ X int }
type F3 struct{ D3 }
type G3 struct{ D3 }
type B3 struct{ F3 }
type C3 struct{ G3 }

// the same type inlined three times, the shallowest last
type FixThrice struct {
	B3
	C3
	D3
}
type FixUnexpEmbed struct {
	inner1  // unexported struct by value: inlined
	*Inner2 // exported pointer: inlined, allocated on decode
	myint   // unexported non struct: ignored
	MyInt   // exported non struct: field "MyInt"
	Z       int
}
type fixPtrInner struct{ Q int }
type FixUnexpPtrEmbed struct {
	*fixPtrInner // unexported embedded pointer: ignored
	R            int
}
type FixIface struct {
	io.Reader // interface: key "Reader", not inlined
	N         int
}
type TArrIn struct {
	_struct bool `codec:",toarray"`
	P       int
	Q       string
}
type FixPromoted struct { // no own _struct: the embedded one is found by FieldByName
	TArrIn
	S int
}
type FixOwnInfo struct {
	_struct bool `codec:",omitempty"`
	TArrIn
	S []int
	M map[string]int
	F float64
}
type FixNamedEmbed struct {
	Inner2 `codec:"in2"`
	A      int
}
type FixTie struct {
	D3
	E3
}
type E3 struct{ X int }
type FixIntKeys struct {
	_struct bool   `codec:",int"`
	A       string `codec:"1"`
	B       int    `codec:"-2,omitempty"`
	C       bool   `codec:"3"`
}
type FixUintKeys struct {
	_struct bool   `codec:",uint,omitempty"`
	A       string `codec:"7"`
	B       []int  `codec:"8"`
}

// key tags on and above the int64 boundary, negative int keys, float keys
type FixUintBig struct {
	_struct bool   `codec:",uint"`
	A       string `codec:"9223372036854775807"`
	B       int    `codec:"9223372036854775808"`
	C       bool   `codec:"18446744073709551615"`
	D       []int  `codec:"0,omitempty"`
}
type FixIntNeg struct {
	_struct bool   `codec:",int"`
	A       string `codec:"-1"`
	B       int    `codec:"-9223372036854775808"`
	C       bool   `codec:"9223372036854775807"`
	D       []int  `codec:"0,omitempty"`
}
type FixFloatKeys struct {
	_struct bool   `codec:",float"`
	A       string `codec:"1.5"`
	B       int    `codec:"-2"`
	C       bool   `codec:"1000"`
}
type FixOmit struct {
	S  []int             `codec:"s,omitempty"`
	M  map[string]int    `codec:"m,omitempty"`
	F  float64           `codec:"f,omitempty"`
	G  float32           `codec:"g,omitempty"`
	St string            `codec:"st,omitempty"`
	P  *int              `codec:"p,omitempty"`
	I  interface{}       `codec:"i,omitempty"`
	N  struct{ S []int } `codec:"n,omitempty"`
	C  struct{ A int }   `codec:"c,omitempty"`
	Ar [2]int            `codec:"ar,omitempty"`
	As [2][]int          `codec:"as,omitempty"`
	Z  [0]int            `codec:"z,omitempty"`
	B  bool              `codec:"b,omitempty"`
	U  uint8             `codec:"u,omitempty"`
}
type FixOmitArr struct {
	_struct bool `codec:",toarray"`
	FixOmit
}
type FixJSONFallback struct {
	A int `json:"ja,omitempty"`
	B int `codec:"cb" json:"jb"`
	C int `codec:"" json:"jc"`
	D int `json:"-"`
	E int `codec:"-" json:"je"`
	F int `codec:"-,"`
	G int `codec:",omitempty" json:"jg"`
	H int `json:",omitempty"`
	I int `codec:"i,x,omitempty,y"`
}

// values larger than the 1024-byte zero block the default build's emptiness test compares against
type BigS struct {
	A    [130]uint64
	Last int64
}
type FixBig struct {
	A [130]uint64 `codec:"a,omitempty"`
	B BigS        `codec:"b,omitempty"`
	C [140]int64  `codec:"c,omitempty"`
	D int         `codec:"d,omitempty"`
}
type FixBigArr struct {
	_struct bool `codec:",toarray"`
	FixBig
}
type FixBigAll struct {
	_struct bool `codec:",omitempty"`
	P       [129]uint64
	Q       BigS
}

// pointer-shaped structs (one pointer or map): held directly in a reflect.Value when encoded by value
type FixPtrShaped struct {
	C *struct{ A int } `codec:"c,omitempty"`
}
type FixMapShaped struct {
	M map[string]string `json:"m,omitempty"`
}
type FixShapedOuter struct {
	E FixPtrShaped
}
type FixShapedIn struct {
	P FixPtrShaped `codec:"p,omitempty"`
	Q FixMapShaped `codec:"q,omitempty"`
	R [1]*int      `codec:"r,omitempty"`
}

// omitempty pointer fields: a non-nil pointer to a zero value is NOT empty
type FixPtrZero struct {
	I *int     `codec:"i,omitempty"`
	S *string  `codec:"s,omitempty"`
	B *bool    `codec:"b,omitempty"`
	F *float64 `codec:"f,omitempty"`
	T *struct {
		A int
		B string
	} `codec:"t,omitempty"`
	PP **int  `codec:"pp,omitempty"`
	L  *[]int `codec:"l,omitempty"`
	N  int    `codec:"n,omitempty"`
}
type FixPtrZeroAll struct {
	_struct bool `codec:",omitempty"`
	I       *int
	T       *struct{ A int }
	U       *uint8
}
type FixEsc struct {
	A int `codec:"a<b"`
	B int `codec:"q\"x"`
	C int `codec:"é"`
}

// names whose only character needing a JSON escape is the first / the last one
type FixEscFirst struct {
	A int `codec:"<a"`
	B int `codec:"\"b"`
	C int `codec:"\\c"`
	D int `codec:"&d"`
	E int `codec:"\u0001e"`
	F int `codec:">"`
	G int `codec:"g>"`
	H int `codec:"h\""`
	I int `codec:"\tj,omitempty"`
}

var fixedTypes = []reflect.Type{
	reflect.TypeOf(FixThrice{}), reflect.TypeOf(FixUnexpEmbed{}), reflect.TypeOf(FixUnexpPtrEmbed{}),
	reflect.TypeOf(FixIface{}), reflect.TypeOf(FixPromoted{}), reflect.TypeOf(FixOwnInfo{}),
	reflect.TypeOf(FixNamedEmbed{}), reflect.TypeOf(FixTie{}), reflect.TypeOf(FixIntKeys{}),
	reflect.TypeOf(FixUintKeys{}), reflect.TypeOf(FixOmit{}), reflect.TypeOf(FixOmitArr{}),
	reflect.TypeOf(FixJSONFallback{}), reflect.TypeOf(FixEsc{}), reflect.TypeOf(FixEscFirst{}), reflect.TypeOf(TArrIn{}),
	reflect.TypeOf(inner1{}), reflect.TypeOf(Inner2{}), reflect.TypeOf(struct{}{}),
	reflect.TypeOf(FixBig{}), reflect.TypeOf(FixBigArr{}), reflect.TypeOf(FixBigAll{}), reflect.TypeOf(BigS{}),
	reflect.TypeOf(FixPtrShaped{}), reflect.TypeOf(FixMapShaped{}), reflect.TypeOf(FixShapedOuter{}), reflect.TypeOf(FixShapedIn{}),
	reflect.TypeOf(FixPtrZero{}), reflect.TypeOf(FixPtrZeroAll{}),
	reflect.TypeOf(FixUintBig{}), reflect.TypeOf(FixIntNeg{}), reflect.TypeOf(FixFloatKeys{}),
}

var keyedTypes = []reflect.Type{
	reflect.TypeOf(FixIntKeys{}), reflect.TypeOf(FixUintKeys{}), reflect.TypeOf(FixUintBig{}), reflect.TypeOf(FixIntNeg{}), reflect.TypeOf(FixFloatKeys{}),
}

var shapedTypes = []reflect.Type{
	reflect.TypeOf(FixPtrShaped{}), reflect.TypeOf(FixMapShaped{}), reflect.TypeOf(FixShapedOuter{}), reflect.TypeOf(FixShapedIn{}),
	reflect.TypeOf([1]*int{}), reflect.TypeOf([1]map[string]int{}), reflect.TypeOf(struct{ P *int }{}),
}

var bigTypes = []reflect.Type{
	reflect.TypeOf(FixBig{}), reflect.TypeOf(FixBigArr{}), reflect.TypeOf(FixBigAll{}), reflect.TypeOf(BigS{}),
	reflect.TypeOf([130]uint64{}), reflect.TypeOf([140]int64{}), reflect.TypeOf([129]uint64{}),
}

// ---- random declarations ----

var leafTypes = []reflect.Type{
	reflect.TypeOf(false), reflect.TypeOf(int(0)), reflect.TypeOf(int8(0)), reflect.TypeOf(int64(0)),
	reflect.TypeOf(uint(0)), reflect.TypeOf(uint16(0)), reflect.TypeOf(uint64(0)),
	reflect.TypeOf(float32(0)), reflect.TypeOf(float64(0)), reflect.TypeOf(""),
	reflect.TypeOf([]int(nil)), reflect.TypeOf([]string(nil)), reflect.TypeOf([]byte(nil)),
	reflect.TypeOf(map[string]int(nil)), reflect.TypeOf(map[string]string(nil)),
	reflect.TypeOf((*int)(nil)), reflect.TypeOf((**string)(nil)), reflect.TypeOf((*[]int)(nil)),
	reflect.TypeOf([2]int{}), reflect.TypeOf([0]int{}), reflect.TypeOf([2][]int{}),
	reflect.TypeOf(struct{ A int }{}), reflect.TypeOf(struct{ S []int }{}), reflect.TypeOf(struct {
		A float64
		B *int
	}{}),
	reflect.TypeOf((*struct{ A int })(nil)),
	reflect.TypeOf((func())(nil)),
}

var ifaceType = reflect.TypeOf((*interface{})(nil)).Elem()

var namePool = []string{"A", "B", "C", "X", "Y", "Zed"}
var tagNamePool = []string{"A", "B", "x", "y", "C", "n1"}

// names with a character json must escape in first, middle or last position
var escNamePool = []string{"<p", "p<q", "q>", "&r", `\\s`, `t\\u`, `\"v`, `w\"`, `\u0002x`, `y\u0003`, "é<"}

type genOpts struct {
	iface    bool // allow interface{} leaf fields
	infoProb int  // 1/n chance of a _struct field per struct (0 = never)
	intKeys  bool
}

// a small pool of inner struct types is reused so that one type is inlined several times
type declGen struct {
	r    *vh.Rng
	o    genOpts
	pool []reflect.Type
}

func (g *declGen) leaf() reflect.Type {
	if g.o.iface && g.r.Chance(1, 10) {
		return ifaceType
	}
	return leafTypes[g.r.Intn(len(leafTypes))]
}

func (g *declGen) tag(i int) reflect.StructTag {
	r := g.r
	nm := tagNamePool[r.Intn(len(tagNamePool))]
	if r.Chance(1, 8) {
		nm = escNamePool[r.Intn(len(escNamePool))]
	}
	switch r.Intn(14) {
	case 0:
		return reflect.StructTag(fmt.Sprintf(`codec:"%s"`, nm))
	case 1:
		return reflect.StructTag(fmt.Sprintf(`codec:"%s,omitempty"`, nm))
	case 2:
		return `codec:",omitempty"`
	case 3:
		return reflect.StructTag(fmt.Sprintf(`json:"%s"`, nm))
	case 4:
		return reflect.StructTag(fmt.Sprintf(`json:"%s,omitempty"`, nm))
	case 5:
		return `codec:"-"`
	case 6:
		return `json:"-"`
	case 7:
		return reflect.StructTag(fmt.Sprintf(`codec:"%s" json:"other"`, nm))
	case 8:
		return reflect.StructTag(fmt.Sprintf(`codec:"" json:"%s,omitempty"`, nm))
	case 9:
		return reflect.StructTag(fmt.Sprintf(`codec:"%s,string,omitempty,x"`, nm))
	}
	return ""
}

// randStruct builds a struct type; depth counts embedding levels still allowed.
func (g *declGen) randStruct(depth int) reflect.Type {
	r := g.r
	for attempt := 0; ; attempt++ {
		t, ok := g.tryStruct(depth)
		if ok {
			return t
		}
		if attempt > 20 {
			return reflect.TypeOf(struct{ A int }{})
		}
		_ = r
	}
}

func (g *declGen) tryStruct(depth int) (t reflect.Type, ok bool) {
	defer func() {
		if recover() != nil {
			ok = false
		}
	}()
	r := g.r
	n := r.Intn(5)
	if depth > 0 {
		n = 1 + r.Intn(4)
	}
	used := map[string]bool{}
	var fs []reflect.StructField
	if g.o.infoProb > 0 && r.Chance(1, g.o.infoProb) {
		tags := []reflect.StructTag{`codec:",toarray"`, `codec:",omitempty"`, `codec:",omitempty,toarray"`, `json:",toarray"`, `codec:",string"`, `codec:"x,omitempty"`, `codec:"toarray"`}
		fs = append(fs, reflect.StructField{Name: "_struct", PkgPath: "main", Type: reflect.TypeOf(false), Tag: tags[r.Intn(len(tags))]})
		used["_struct"] = true
	}
	for i := 0; i < n; i++ {
		switch {
		case depth > 0 && r.Chance(2, 5):
			// embedded struct, by value or by pointer
			var in reflect.Type
			if len(g.pool) > 0 && r.Chance(1, 2) {
				in = g.pool[r.Intn(len(g.pool))]
			} else {
				in = g.randStruct(depth - 1)
				g.pool = append(g.pool, in)
			}
			name := fmt.Sprintf("E%d", r.Intn(6))
			if used[name] {
				continue
			}
			used[name] = true
			f := reflect.StructField{Name: name, Anonymous: true, Type: in}
			if r.Chance(2, 5) {
				f.Type = reflect.PointerTo(in)
			}
			switch r.Intn(8) {
			case 0:
				f.Tag = `codec:"emb"` // replacement name: not inlined
			case 1:
				f.Tag = `codec:",omitempty"` // options only: inlined
			case 2:
				f.Tag = `codec:"-"`
			case 3:
				f.Tag = `json:"jemb"`
			}
			fs = append(fs, f)
		case r.Chance(1, 12):
			name := []string{"a", "b", "c"}[r.Intn(3)]
			if used[name] {
				continue
			}
			used[name] = true
			fs = append(fs, reflect.StructField{Name: name, PkgPath: "main", Type: reflect.TypeOf(0), Tag: g.tag(i)})
		default:
			name := namePool[r.Intn(len(namePool))]
			if used[name] {
				continue
			}
			used[name] = true
			fs = append(fs, reflect.StructField{Name: name, Type: g.leaf(), Tag: g.tag(i)})
		}
	}
	return reflect.StructOf(fs), true
}

// intKeyStruct: fields named by small integers, _struct selects int or uint keys.
func (g *declGen) intKeyStruct() reflect.Type {
	r := g.r
	kt := []string{"int", "uint"}[r.Intn(2)]
	fs := []reflect.StructField{{Name: "_struct", PkgPath: "main", Type: reflect.TypeOf(false), Tag: reflect.StructTag(fmt.Sprintf(`codec:",%s"`, kt))}}
	n := 1 + r.Intn(4)
	for i := 0; i < n; i++ {
		fs = append(fs, reflect.StructField{Name: namePool[i], Type: g.leaf(), Tag: reflect.StructTag(fmt.Sprintf(`codec:"%d"`, i+1))})
	}
	return reflect.StructOf(fs)
}

// ---- values ----

type valOpts struct {
	quirks bool // allow the memory shapes where emptiness tests are known to differ
	iface  bool
}

var negZero = math.Copysign(0, -1)

func fillVal(r *vh.Rng, v reflect.Value, o valOpts, depth int) {
	if !v.CanSet() {
		return
	}
	t := v.Type()
	zeroish := r.Chance(1, 3)
	switch t.Kind() {
	case reflect.Bool:
		v.SetBool(!zeroish && r.Bool())
	case reflect.Int, reflect.Int8, reflect.Int16, reflect.Int32, reflect.Int64:
		if !zeroish {
			v.SetInt(int64(r.Intn(200) - 100))
		}
	case reflect.Uint, reflect.Uint8, reflect.Uint16, reflect.Uint32, reflect.Uint64, reflect.Uintptr:
		if !zeroish {
			v.SetUint(uint64(r.Intn(200)))
		}
	case reflect.Float32, reflect.Float64:
		switch {
		case zeroish && o.quirks && r.Chance(1, 2):
			v.SetFloat(negZero)
		case zeroish:
		default:
			v.SetFloat(float64(r.Intn(64)-32) / 4)
		}
	case reflect.String:
		switch {
		case zeroish && o.quirks && r.Chance(1, 2):
			s := "abc"
			v.SetString(s[:0]) // empty, data pointer not nil
		case zeroish:
		default:
			v.SetString(vh.RandString(r, vh.ValOpts{ASCII: true, MaxLen: 4}))
		}
	case reflect.Slice:
		switch {
		case zeroish && o.quirks && r.Chance(1, 2):
			v.Set(reflect.MakeSlice(t, 0, 0))
		case zeroish:
		default:
			n := 1 + r.Intn(3)
			s := reflect.MakeSlice(t, n, n)
			for i := 0; i < n; i++ {
				fillVal(r, s.Index(i), o, depth+1)
			}
			v.Set(s)
		}
	case reflect.Array:
		if t.Len() > 100 {
			// large values: all zero, or zero for the first 1024 bytes and set only late, or set early too
			switch r.Intn(4) {
			case 0:
			case 1, 2:
				for i := 128; i < t.Len(); i++ {
					if r.Bool() || i == t.Len()-1 {
						fillNonZero(r, v.Index(i))
					}
				}
			default:
				fillNonZero(r, v.Index(r.Intn(t.Len())))
			}
			return
		}
		if zeroish && !o.quirks {
			return
		}
		for i := 0; i < t.Len(); i++ {
			fillVal(r, v.Index(i), o, depth+1)
		}
	case reflect.Map:
		switch {
		case zeroish && o.quirks && r.Chance(1, 2):
			v.Set(reflect.MakeMap(t))
		case zeroish:
		default:
			n := 1 + r.Intn(2)
			m := reflect.MakeMap(t)
			for i := 0; i < n; i++ {
				k := reflect.New(t.Key()).Elem()
				k.SetString(string(rune('a' + r.Intn(26))))
				e := reflect.New(t.Elem()).Elem()
				fillVal(r, e, valOpts{}, depth+1)
				m.SetMapIndex(k, e)
			}
			v.Set(m)
		}
	case reflect.Ptr:
		if zeroish {
			return
		}
		p := reflect.New(t.Elem())
		if !r.Chance(1, 3) { // else: a NON-nil pointer to the zero value (not empty: only nil pointers are)
			fillVal(r, p.Elem(), o, depth+1)
		}
		v.Set(p)
	case reflect.Interface:
		if zeroish || !o.iface || t.NumMethod() != 0 {
			return
		}
		switch r.Intn(4) {
		case 0:
			v.Set(reflect.ValueOf(int64(r.Intn(5))))
		case 1:
			v.Set(reflect.ValueOf(""))
		case 2:
			v.Set(reflect.ValueOf("s"))
		default:
			v.Set(reflect.ValueOf(true))
		}
	case reflect.Struct:
		if t == reflect.TypeOf(BigS{}) {
			// the big array zero (or late-only) and the trailing field set, or everything zero
			fillVal(r, v.Field(0), o, depth+1)
			if r.Chance(2, 3) {
				fillNonZero(r, v.Field(1))
			}
			return
		}
		if zeroish && depth > 0 && !o.quirks {
			return
		}
		for i := 0; i < t.NumField(); i++ {
			fillVal(r, v.Field(i), o, depth+1)
		}
	}
}

func fillNonZero(r *vh.Rng, v reflect.Value) {
	switch v.Kind() {
	case reflect.Int, reflect.Int8, reflect.Int16, reflect.Int32, reflect.Int64:
		v.SetInt(int64(1 + r.Intn(90)))
	case reflect.Uint, reflect.Uint8, reflect.Uint16, reflect.Uint32, reflect.Uint64:
		v.SetUint(uint64(1 + r.Intn(90)))
	}
}

// ---- documented emptiness (Encode doc: "The empty values are false, 0, any nil pointer or
// interface value, and any array, slice, map, or string of length zero"; "the field is empty
// (empty or the zero value)") ----

func docZero(v reflect.Value) bool {
	switch v.Kind() {
	case reflect.Bool:
		return !v.Bool()
	case reflect.Int, reflect.Int8, reflect.Int16, reflect.Int32, reflect.Int64:
		return v.Int() == 0
	case reflect.Uint, reflect.Uint8, reflect.Uint16, reflect.Uint32, reflect.Uint64, reflect.Uintptr:
		return v.Uint() == 0
	case reflect.Float32, reflect.Float64:
		return v.Float() == 0
	case reflect.String:
		return v.Len() == 0
	case reflect.Slice, reflect.Map, reflect.Ptr, reflect.Interface, reflect.Func:
		return v.IsNil()
	case reflect.Array:
		for i := 0; i < v.Len(); i++ {
			if !docZero(v.Index(i)) {
				return false
			}
		}
		return true
	case reflect.Struct:
		for i := 0; i < v.NumField(); i++ {
			if !docZero(v.Field(i)) {
				return false
			}
		}
		return true
	}
	return false
}

func docEmpty(v reflect.Value) bool {
	if !v.IsValid() {
		return true
	}
	switch v.Kind() {
	case reflect.Slice, reflect.Map, reflect.Array, reflect.String:
		if v.Len() == 0 {
			return true
		}
	}
	return docZero(v)
}

// quirkClass names the memory shape of a value on which the emptiness tests of the two
// builds are known to disagree with the documentation ("" if none).
func quirkClass(v reflect.Value) string {
	if !v.IsValid() {
		return ""
	}
	switch v.Kind() {
	case reflect.Slice:
		if !v.IsNil() && v.Len() == 0 {
			return "nonnil-empty-slice"
		}
	case reflect.Map:
		if !v.IsNil() && v.Len() == 0 {
			return "nonnil-empty-map"
		}
	case reflect.Float32, reflect.Float64:
		if v.Float() == 0 && math.Signbit(v.Float()) {
			return "negative-zero"
		}
	case reflect.String:
		if v.Len() == 0 && coqVal(v) == "(MStr false [])" {
			return "empty-string-nonnil-data"
		}
	case reflect.Struct:
		// codec.safe: a struct that is not comparable is never empty (whatever it holds);
		// default build: memory compare, so what matters is a nested shape such as -0.0
		znc := docZero(v) && !v.Type().Comparable()
		if znc && buildName == "safe" {
			return "zero-noncomparable-struct"
		}
		for i := 0; i < v.NumField(); i++ {
			if c := quirkClass(v.Field(i)); c != "" {
				return "struct-holding-" + c
			}
		}
		if znc {
			return "zero-noncomparable-struct"
		}
	case reflect.Array:
		for i := 0; i < v.Len(); i++ {
			if c := quirkClass(v.Index(i)); c != "" {
				return "array-holding-" + c
			}
		}
	}
	return ""
}

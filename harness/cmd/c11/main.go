// c11: property oracle and correspondence for C11 ("every consumer of a value
// agrees on where that value ends").
//
// Stream "seq" (API level, five formats, bytes and io transports on both sides,
// random encoder option vectors): v1..vn (n <= 12) random typed values written by
// successive Encode calls on ONE Encoder; read back by ONE Decoder with a random
// mode per position:
//
//	typed  Decode(new(T))
//	naked  Decode(&interface{})
//	raw    Decode(&codec.Raw), later re-emitted verbatim and decoded
//	wrap   the value is a struct; the destination struct lacks some of its fields
//	       (unknown key -> swallow; with StructToArray: excess array elements ->
//	       swallow) and holds others as interface{} / codec.Raw / the same type
//	arr    (json, cbor IndefiniteLength) a slice decoded into a shorter Go array:
//	       the excess elements are swallowed
//
// Oracles: NumBytesRead after call i == length of the stream after the i-th
// Encode (json: the one trailing delimiter TermWhitespace writes may be left
// unread); values deep-equal; Raw bytes == the encoder's bytes for that value;
// later values unaffected (binc AsSymbols on); nothing left at the end; the
// re-emitted stream decodes to the original values.
//
// Stream "model" (cbor, msgpack, simple, binc): item-level values (interface{}
// trees) written by one Encoder and read by one Decoder with modes naked / raw /
// skip-as-unknown-field; stream bytes, extents after each Encode, NumBytesRead
// after each Decode, decoded trees and captured Raw bytes are written as Coq
// cases for C11/Corr.v (the sequence machinery of C11/Seq.v instantiated with
// the wire models).
package main

import (
	"bytes"
	"errors"
	"flag"
	"fmt"
	"io"
	"reflect"
	"sort"
	"strings"

	"verifharness/vh"

	"github.com/ugorji/go/codec"
)

var rawType = reflect.TypeOf(codec.Raw(nil))

type posn struct {
	mode string // typed naked raw wrap arr
	t    reflect.Type
	v    reflect.Value
	dstT reflect.Type // wrap / arr
	fm   []string     // wrap: per source field: typed naked raw skip
}

func selfDelimiting(t reflect.Type) bool {
	if t == vh.TimeType {
		return false
	}
	switch t.Kind() {
	case reflect.Struct, reflect.Map, reflect.String:
		return true
	case reflect.Slice, reflect.Array:
		return true
	}
	return false
}

func randTopType(r *vh.Rng, format string, needSelfDelim bool) reflect.Type {
	for {
		to := vh.TypeOpts{MaxDepth: 1 + r.Intn(3)}
		t := vh.StripOmitEmpty(vh.RandType(r, to, 0))
		if needSelfDelim && !selfDelimiting(t) {
			continue
		}
		return t
	}
}

func valOpts(r *vh.Rng, format string) vh.ValOpts {
	vo := vh.ValOpts{BigLens: r.Chance(1, 4), MaxLen: 4}
	if format == "json" {
		vo.NoNaN, vo.NoInf = true, true
	}
	return vo
}

func wrapType(r *vh.Rng) reflect.Type {
	n := 1 + r.Intn(5)
	fs := make([]reflect.StructField, 0, n)
	for i := 0; i < n; i++ {
		to := vh.TypeOpts{MaxDepth: r.Intn(3)}
		fs = append(fs, reflect.StructField{Name: fmt.Sprintf("F%d", i), Type: vh.StripOmitEmpty(vh.RandType(r, to, 0))})
	}
	return reflect.StructOf(fs)
}

// destination of a wrap position
func wrapDest(r *vh.Rng, src reflect.Type, toArray bool) (reflect.Type, []string) {
	n := src.NumField()
	fm := make([]string, n)
	keep := n
	if toArray {
		keep = r.Intn(n + 1) // only a prefix can be kept: the rest are excess array elements
	}
	var fs []reflect.StructField
	for i := 0; i < n; i++ {
		f := src.Field(i)
		m := r.PickString("typed", "naked", "raw", "skip", "skip")
		if toArray {
			if i >= keep {
				m = "skip"
			} else if m == "skip" {
				m = "typed"
			}
		}
		fm[i] = m
		switch m {
		case "typed":
			fs = append(fs, reflect.StructField{Name: f.Name, Type: f.Type})
		case "naked":
			fs = append(fs, reflect.StructField{Name: f.Name, Type: vh.IfaceType})
		case "raw":
			fs = append(fs, reflect.StructField{Name: f.Name, Type: rawType})
		}
	}
	return reflect.StructOf(fs), fm
}

func genSeq(r *vh.Rng, format string, o vh.Opts) []posn {
	n := 1 + r.Intn(12)
	tw, _ := o["TermWhitespace"].(bool)
	needSDall := format == "json" && !tw
	toArray, _ := o["StructToArray"].(bool)
	indef, _ := o["IndefiniteLength"].(bool)
	arrOK := format == "json" || (format == "cbor" && indef)
	seq := make([]posn, 0, n)
	prevBare := false
	for i := 0; i < n; i++ {
		var p posn
		// json without TermWhitespace: a bare number / literal is ended by the first byte of what follows: it may be
		// the LAST value of the stream, or be followed by a value whose text starts with [ { " (never by another
		// bare value: `12` `7` would read as 127)
		needSD := needSDall && (prevBare || (i < n-1 && r.Chance(2, 3)))
		p.mode = r.PickString("typed", "typed", "naked", "naked", "raw", "raw", "raw", "wrap", "wrap", "wrap", "arr")
		if p.mode == "arr" && !arrOK {
			p.mode = "wrap"
		}
		vo := valOpts(r, format)
		switch p.mode {
		case "wrap":
			p.t = wrapType(r)
			p.v = vh.RandValue(r, p.t, vo)
			p.dstT, p.fm = wrapDest(r, p.t, toArray)
		case "arr":
			et := vh.StripOmitEmpty(vh.RandType(r, vh.TypeOpts{MaxDepth: r.Intn(2)}, 0))
			if et.Kind() == reflect.Uint8 {
				et = reflect.TypeOf(int16(0))
			}
			p.t = reflect.SliceOf(et)
			ln := 1 + r.Intn(5)
			s := reflect.MakeSlice(p.t, ln, ln)
			for k := 0; k < ln; k++ {
				s.Index(k).Set(vh.RandValue(r, et, vo))
			}
			p.v = s
			p.dstT = reflect.ArrayOf(r.Intn(ln), et)
		default:
			p.t = randTopType(r, format, needSD)
			p.v = vh.RandValue(r, p.t, vo)
		}
		prevBare = needSDall && !selfDelimiting(p.t)
		seq = append(seq, p)
	}
	return seq
}

func isEOF(err error) bool {
	return err != nil && (errors.Is(err, io.EOF) || errors.Is(err, io.ErrUnexpectedEOF) || strings.Contains(err.Error(), "EOF"))
}

// standalone encoding of a FIELD value with a fresh Encoder.  Pointers are followed first: inside a container a
// *T is written as its T.  (Before F05-7 a top-level Encode(&x) of a pointer to a nil []byte under
// NilCollectionToZeroLength wrote an empty array where the other paths wrote empty bytes; the expected bytes of a
// field are therefore never computed through the top-level pointer branch.)
func encodeField(h codec.Handle, v reflect.Value) ([]byte, error) {
	for v.Kind() == reflect.Ptr && !v.IsNil() {
		v = v.Elem()
	}
	return encodeOne(h, v)
}

// standalone encoding exactly as a top-level Encode call sees the value
func encodeOne(h codec.Handle, v reflect.Value) ([]byte, error) {
	var out []byte
	err := codec.NewEncoderBytes(&out, h).Encode(v.Interface())
	return out, err
}

// what Decode(&interface{}) gives for the value's own encoding, standalone
func nakedOfField(h codec.Handle, v reflect.Value) (string, error) {
	for v.Kind() == reflect.Ptr && !v.IsNil() {
		v = v.Elem()
	}
	return nakedOf(h, v)
}

func nakedOf(h codec.Handle, v reflect.Value) (string, error) {
	b, err := encodeOne(h, v)
	if err != nil {
		return "", err
	}
	var x interface{}
	if err := codec.NewDecoderBytes(b, h).Decode(&x); err != nil {
		return "", err
	}
	return vh.Canon(x), nil
}

func isNumText(b []byte) bool {
	if len(b) == 0 {
		return false
	}
	for _, x := range b {
		if !(x >= '0' && x <= '9') && x != '-' && x != '+' && x != '.' && x != 'e' && x != 'E' {
			return false
		}
	}
	return true
}

type seqCtx struct {
	format      string
	o           vh.Opts
	h           codec.Handle // stream decoder / standalone helper handle (bytes)
	sum         *vh.Summary
	cj          map[string]interface{}
	bincSym     bool
	indent      bool
	canonical   bool
	termWS      bool
	encT, decT  string
	failed      bool
	norm        vh.NormCfg
	modesSeen   map[string]bool
	after       bool // re-checking after the whole stream has been consumed
}

func (c *seqCtx) fail(class, what string, extra map[string]interface{}) {
	if c.after {
		class += ":after-stream"
	}
	cj := map[string]interface{}{}
	for k, v := range c.cj {
		cj[k] = v
	}
	for k, v := range extra {
		cj[k] = v
	}
	c.failed = true
	c.sum.FailC("seq", "c11:"+c.format+":"+class, what, cj)
}

// bytes of a standalone encoding are comparable with the bytes inside the stream
func (c *seqCtx) bytesComparable(t reflect.Type, nested bool) bool {
	if c.bincSym {
		return false
	}
	if nested && c.indent {
		return false
	}
	return c.canonical || !vh.HasMap(t)
}

func (c *seqCtx) checkRawField(name string, t reflect.Type, src reflect.Value, raw []byte, i int) {
	ex := map[string]interface{}{"position": i, "field": name, "field_type": t.String(), "raw": vh.Hex(raw)}
	if vh.EncodesNil(src, c.norm) || (src.Kind() == reflect.Slice && src.IsNil() && !c.norm.NilToEmpty) {
		if len(raw) != 0 {
			c.fail("wrap:raw-field:nil-item", "a nil item in the stream left a non-empty Raw field", ex)
		}
		return
	}
	if c.bytesComparable(t, true) {
		want, err := encodeField(c.h, src)
		if c.format == "json" {
			want = bytes.TrimRight(want, " \n") // the delimiter TermWhitespace adds to a top-level value
		}
		if err == nil && !bytes.Equal(want, raw) {
			ex["want"] = vh.Hex(want)
			cls := "wrap:raw-field:bytes:" + vh.DescribeKind(t)
			if c.format == "json" && len(raw) == len(want)+1 && bytes.HasPrefix(raw, want) && isNumText(want) {
				cls = "wrap:raw-field:json-number-plus-following-byte"
			}
			c.fail(cls, "a Raw struct field does not hold exactly the bytes the encoder wrote for the value", ex)
			return
		}
	}
	if !c.bincSym {
		dst := reflect.New(t)
		if err := codec.NewDecoderBytes(raw, c.h).Decode(dst.Interface()); err != nil {
			ex["err"] = err.Error()
			c.fail("wrap:raw-field:decode-error:"+vh.DescribeKind(t), "the bytes captured in a Raw struct field do not decode", ex)
			return
		}
		if d := vh.FirstDiff(vh.Norm(src, c.norm), dst.Elem()); d != "" {
			ex["diff"] = d
			c.fail("wrap:raw-field:value:"+d, "the bytes captured in a Raw struct field decode to a different value", ex)
		}
	}
}

// the Raw fields of a wrap destination once more (after the rest of the stream has been read)
func (c *seqCtx) checkWrapRaws(p posn, dst reflect.Value, i int) {
	for j := 0; j < p.t.NumField(); j++ {
		if p.fm[j] == "raw" {
			f := p.t.Field(j)
			c.after = true
			c.checkRawField(f.Name, f.Type, p.v.Field(j), dst.FieldByName(f.Name).Bytes(), i)
			c.after = false
		}
	}
}

func (c *seqCtx) checkWrap(p posn, dst reflect.Value, i int) {
	for j := 0; j < p.t.NumField(); j++ {
		f := p.t.Field(j)
		src := p.v.Field(j)
		ex := map[string]interface{}{"position": i, "field": f.Name, "field_type": f.Type.String(), "field_mode": p.fm[j]}
		switch p.fm[j] {
		case "typed":
			if d := vh.FirstDiff(vh.Norm(src, c.norm), dst.FieldByName(f.Name)); d != "" {
				ex["diff"] = d
				c.fail("wrap:typed-field:"+d, "a struct field decoded next to skipped / captured fields differs from the value encoded", ex)
			}
		case "naked":
			want, err := nakedOfField(c.h, src)
			got := vh.CanonRV(dst.FieldByName(f.Name))
			if err == nil && "i:"+want != got && !(want == "nil" && got == "niliface") {
				ex["want"], ex["got"] = want, got
				c.fail("wrap:naked-field:"+vh.DescribeKind(f.Type), "an interface{} struct field decoded next to skipped / captured fields differs from the standalone schema-less decoding of the value", ex)
			}
		case "raw":
			c.checkRawField(f.Name, f.Type, src, dst.FieldByName(f.Name).Bytes(), i)
		}
	}
}

func runSeq(r *vh.Rng, format string, idx int, sum *vh.Summary) {
	o := vh.RandEncOpts(r, format)
	if format == "json" {
		delete(o, "StringToRaw") // F01-s2r (known, C01): json + StringToRaw does not round-trip strings
		if r.Chance(3, 4) {
			o["TermWhitespace"] = true
		} else {
			delete(o, "TermWhitespace")
		}
	}
	if r.Chance(1, 4) {
		o["NilCollectionToZeroLength"] = true
	}
	// SignedInteger is not drawn here: an unsigned value >= 2^63 met by Decode(&interface{}) is then an
	// overflow error (C07 / C15 territory); the model stream covers the option with values in range.
	if r.Chance(1, 3) {
		o["RawToString"] = true
	}
	if format == "binc" && r.Chance(2, 3) {
		o["AsSymbols"] = 1
	}
	if r.Chance(1, 3) {
		o["ZeroCopy"] = true // captured Raw / decoded values may be views of the INPUT, never of a reader's transient storage
	}
	o["Raw"] = true
	seq := genSeq(r, format, o)
	c := &seqCtx{format: format, o: o, sum: sum, norm: vh.FormatNorm(format, o), modesSeen: map[string]bool{}}
	c.h = vh.NewHandle(format, o)
	if v, _ := o["AsSymbols"].(int); v == 1 && format == "binc" {
		c.bincSym = true
	}
	if v, _ := o["Indent"].(int); v != 0 {
		c.indent = true
	}
	c.canonical, _ = o["Canonical"].(bool)
	c.termWS, _ = o["TermWhitespace"].(bool)
	types := make([]string, len(seq))
	modes := make([]string, len(seq))
	for i, p := range seq {
		types[i] = p.t.String()
		modes[i] = p.mode
		if p.mode == "wrap" {
			modes[i] = "wrap(" + strings.Join(p.fm, ",") + ")"
		}
		c.modesSeen[p.mode] = true
	}
	c.cj = map[string]interface{}{"format": format, "opts": o.String(), "types": types, "modes": modes, "seed_index": idx}

	// ---- encode: ONE Encoder, successive Encode calls ----
	var out []byte
	var buf bytes.Buffer
	var e *codec.Encoder
	c.encT = r.PickString("bytes", "io")
	if c.encT == "bytes" {
		e = codec.NewEncoderBytes(&out, c.h)
	} else {
		he := vh.NewHandle(format, vh.CopyOpts(o, "WriterBufferSize", r.PickInt(0, 1, 16, 64, 4096)))
		e = codec.NewEncoder(&buf, he)
	}
	ends := make([]int, len(seq))
	for i, p := range seq {
		if err := e.Encode(p.v.Interface()); err != nil {
			c.fail("encode-error:"+vh.DescribeKind(p.t), "Encode of a supported value in a sequence returned an error", map[string]interface{}{"position": i, "err": err.Error()})
			return
		}
		if c.encT == "bytes" {
			ends[i] = len(out)
		} else {
			ends[i] = buf.Len()
		}
	}
	if c.encT == "io" {
		out = append([]byte(nil), buf.Bytes()...)
	}
	total := len(out)
	hx := vh.Hex(out)
	if len(hx) > 3000 {
		hx = hx[:3000] + "..."
	}
	c.cj["bytes"] = hx
	c.cj["ends"] = fmt.Sprint(ends)
	c.cj["enc_transport"] = c.encT
	part := func(i int) []byte {
		if i == 0 {
			return out[:ends[0]]
		}
		return out[ends[i-1]:ends[i]]
	}

	// ---- decode: ONE Decoder, one call per position ----
	var d *codec.Decoder
	c.decT = r.PickString("bytes", "io", "io-bytereader", "io-short")
	switch c.decT {
	case "bytes":
		in := append(make([]byte, 0, len(out)+r.Intn(3)), out...) // cap >= len: a reader must not look past len
		d = codec.NewDecoderBytes(in, c.h)
	case "io":
		rb := r.PickInt(0, 0, 1, 7, 64, 4096)
		c.cj["reader_buffer"] = rb
		d = codec.NewDecoder(vh.OnlyReader{R: bytes.NewReader(out)}, vh.NewHandle(format, vh.CopyOpts(o, "ReaderBufferSize", rb)))
	case "io-short":
		// a reader that delivers 1..7 bytes per Read, unbuffered or buffered
		rb := r.PickInt(0, 0, 0, 16, 64)
		chunk := r.PickInt(1, 2, 3, 5, 7)
		c.cj["reader_buffer"], c.cj["read_chunk"] = rb, chunk
		d = codec.NewDecoder(&vh.ShortReader{R: bytes.NewReader(out), N: chunk}, vh.NewHandle(format, vh.CopyOpts(o, "ReaderBufferSize", rb)))
	default:
		d = codec.NewDecoder(bytes.NewReader(out), c.h)
	}
	c.cj["dec_transport"] = c.decT
	raws := make([][]byte, len(seq))
	var later []func()
	for i, p := range seq {
		i, p := i, p
		ex := map[string]interface{}{"position": i, "mode": p.mode, "type": p.t.String()}
		var err error
		switch p.mode {
		case "typed":
			dst := reflect.New(p.t)
			if err = d.Decode(dst.Interface()); err == nil {
				if df := vh.FirstDiff(vh.Norm(p.v, c.norm), dst.Elem()); df != "" {
					ex["diff"] = df
					c.fail("typed:value:"+df, "a value decoded after skipped / captured values differs from the value encoded at its position", ex)
				}
			}
		case "naked":
			var x interface{}
			if err = d.Decode(&x); err == nil {
				want, e2 := nakedOf(c.h, p.v)
				if got := vh.Canon(x); e2 == nil && got != want {
					ex["want"], ex["got"] = want, got
					c.fail("naked:value:"+vh.DescribeKind(p.t), "a value decoded into interface{} inside a sequence differs from its standalone schema-less decoding", ex)
				}
			}
		case "raw":
			var raw codec.Raw
			if err = d.Decode(&raw); err == nil {
				raws[i] = raw
				chk := func(when string) {
					b := part(i)
					ok := bytes.Equal(raw, b)
					if !ok && format == "json" && c.termWS && len(b) > 0 {
						ok = bytes.Equal(raw, b[:len(b)-1]) // without the delimiter TermWhitespace wrote
					}
					if !ok {
						ex2 := map[string]interface{}{"position": i, "mode": "raw", "type": p.t.String(), "raw": vh.Hex(raw), "want": vh.Hex(b), "when": when}
						c.fail("raw:bytes"+when+":"+vh.DescribeKind(p.t), "Decode(&Raw) did not capture exactly the bytes the i-th Encode wrote", ex2)
					}
				}
				chk("")
				// ... and again once the whole stream has been consumed: a Raw is the caller's (C13), later reads on
				// the same Decoder must not change it
				later = append(later, func() { chk(":after-stream") })
			}
		case "wrap", "arr":
			dst := reflect.New(p.dstT)
			if err = d.Decode(dst.Interface()); err == nil {
				if p.mode == "wrap" {
					c.checkWrap(p, dst.Elem(), i)
					if !c.failed {
						later = append(later, func() { c.checkWrapRaws(p, dst.Elem(), i) })
					}
				} else {
					for k := 0; k < p.dstT.Len(); k++ {
						if df := vh.FirstDiff(vh.Norm(p.v.Index(k), c.norm), dst.Elem().Index(k)); df != "" {
							ex["diff"], ex["index"] = df, k
							c.fail("arr:value:"+df, "an array element decoded before swallowed excess elements differs from the value encoded", ex)
							break
						}
					}
				}
			}
		}
		if err != nil {
			ex["err"] = err.Error()
			c.fail("decode-error:"+p.mode+":"+vh.DescribeKind(p.t), "Decode of the i-th value of a sequence written by one Encoder returned an error", ex)
			return
		}
		nr := d.NumBytesRead()
		okN := nr == ends[i]
		if format == "json" && c.termWS {
			okN = nr == ends[i] || nr == ends[i]-1
		}
		if format == "json" && !c.termWS && i < len(seq)-1 && !selfDelimiting(p.t) {
			// a bare number is ended by the next value's first byte, which is then the pending token
			okN = nr == ends[i] || nr == ends[i]+1
		}
		if !okN {
			ex["numread"], ex["want"] = nr, ends[i]
			cls := "numread:" + p.mode
			if nr > total {
				cls = "numread-exceeds-input:" + p.mode
			}
			c.fail(cls, "NumBytesRead after the i-th Decode differs from the length of the first i encodings", ex)
			return
		}
	}
	// captured Raw values, looked at again now that every later value has been read
	for _, f := range later {
		if c.failed {
			break
		}
		f()
	}
	// nothing left
	var extra interface{}
	err := d.Decode(&extra)
	if err == nil || !isEOF(err) {
		c.fail("trailing", "after n Decode calls the stream written by n Encode calls is not at its end", map[string]interface{}{"err": fmt.Sprint(err), "got": vh.Canon(extra)})
	}

	// ---- re-emit verbatim: captured Raw where captured, the encoder's own bytes elsewhere ----
	if !c.failed {
		var out2 []byte
		e2 := codec.NewEncoderBytes(&out2, c.h)
		for i := range seq {
			b := part(i)
			if raws[i] != nil {
				b = raws[i]
			}
			if format == "json" {
				b = bytes.TrimRight(b, " \n")
			}
			if err := e2.Encode(codec.Raw(b)); err != nil {
				c.fail("reemit:encode-error", "Encode(Raw) returned an error", map[string]interface{}{"position": i, "err": err.Error()})
				return
			}
		}
		if format != "json" && !bytes.Equal(out, out2) {
			c.fail("reemit:bytes", "the stream re-emitted from captured Raw values differs from the original stream", map[string]interface{}{"reemitted": vh.Hex(out2)})
			return
		}
		d2 := codec.NewDecoderBytes(out2, c.h)
		for i, p := range seq {
			dst := reflect.New(p.t)
			if err := d2.Decode(dst.Interface()); err != nil {
				c.fail("reemit:decode-error:"+vh.DescribeKind(p.t), "the re-emitted stream does not decode", map[string]interface{}{"position": i, "err": err.Error(), "reemitted": vh.Hex(out2)})
				return
			}
			if df := vh.FirstDiff(vh.Norm(p.v, c.norm), dst.Elem()); df != "" {
				c.fail("reemit:value:"+df, "a captured Raw value re-emitted verbatim decodes to a different value", map[string]interface{}{"position": i, "diff": df, "type": p.t.String()})
				return
			}
		}
	}

	ms := make([]string, 0, len(c.modesSeen))
	for m := range c.modesSeen {
		ms = append(ms, m)
	}
	sort.Strings(ms)
	key := ""
	if !c.failed {
		key = fmt.Sprintf("seq/%s/%s/%s/%s/%s/n%d", format, c.encT, c.decT, o.String(), strings.Join(modes, ";"), len(seq))
	}
	sum.Count("seq."+format, key)
	sum.Dist["seq.enc."+c.encT]++
	sum.Dist["seq.dec."+c.decT]++
	sum.Dist[fmt.Sprintf("seq.len%02d", len(seq))]++
	for _, p := range seq {
		sum.Dist["seq.mode."+p.mode]++
		if p.mode == "wrap" {
			for _, m := range p.fm {
				sum.Dist["seq.wrapfield."+m]++
			}
		}
	}
	for k, x := range o {
		if b, isb := x.(bool); (isb && b) || !isb {
			sum.Dist["seq.opt."+format+"."+k]++
		}
	}
	if idx < 3 {
		sum.Sample(c.cj)
	}
}

// ---------------- model stream ----------------

type mfmt struct {
	name string
	eo   vh.Opts
	coq  string
}

func randModelFmt(r *vh.Rng) mfmt {
	name := []string{"cbor", "msgpack", "simple", "binc"}[r.Intn(4)]
	o := vh.Opts{}
	b := func(k string, num, den int) bool {
		v := r.Chance(num, den)
		if v {
			o[k] = true
		}
		return v
	}
	signed := b("SignedInteger", 1, 3)
	r2s := b("RawToString", 1, 3)
	s2r := b("StringToRaw", 1, 4)
	var coq string
	cb := vh.CoqBool
	switch name {
	case "cbor":
		indef := b("IndefiniteLength", 1, 3)
		rfc := b("TimeRFC3339", 1, 3)
		opt := b("OptimumSize", 1, 4)
		coq = fmt.Sprintf("(fcbor %s %s %s %s %s %s)", cb(indef), cb(rfc), cb(s2r), cb(opt), cb(signed), cb(r2s))
	case "msgpack":
		we := b("WriteExt", 1, 2)
		nf := b("NoFixedNum", 1, 3)
		pu := b("PositiveIntUnsigned", 1, 3)
		coq = fmt.Sprintf("(fmsgpack %s %s %s %s %s %s)", cb(we), cb(nf), cb(pu), cb(s2r), cb(r2s), cb(signed))
	case "simple":
		coq = fmt.Sprintf("(fsimple %s %s %s)", cb(s2r), cb(signed), cb(r2s))
	case "binc":
		sym := r.Chance(2, 3)
		if sym {
			o["AsSymbols"] = 1
		}
		coq = fmt.Sprintf("(fbinc %s %s %s %s)", cb(sym), cb(s2r), cb(signed), cb(r2s))
	}
	return mfmt{name, o, coq}
}

type unknownField struct{ A int }

func coqItems(l []*vh.Item) string {
	var sb strings.Builder
	sb.WriteString("[")
	for i, x := range l {
		if i > 0 {
			sb.WriteString("; ")
		}
		sb.WriteString(x.Coq())
	}
	sb.WriteString("]")
	return sb.String()
}

func coqNs(l []int) string {
	var sb strings.Builder
	sb.WriteString("[")
	for i, x := range l {
		if i > 0 {
			sb.WriteString(";")
		}
		fmt.Fprintf(&sb, "%d", x)
	}
	sb.WriteString("]%N")
	if len(l) == 0 {
		return "[]"
	}
	return sb.String()
}

func coqByteLists(l [][]byte) string {
	var sb strings.Builder
	sb.WriteString("[")
	for i, x := range l {
		if i > 0 {
			sb.WriteString("; ")
		}
		sb.WriteString(vh.CoqBytes(x))
	}
	sb.WriteString("]")
	return sb.String()
}

func modelStream(r *vh.Rng, n int, dir string, sum *vh.Summary, ext bool) {
	hdr := "From Coq Require Import List NArith ZArith.\nFrom Verif Require Import Wire.Item C11.Corr.\nImport ListNotations."
	cv := vh.NewCases(dir, hdr, "case", "mismatches", 40)
	syms := []string{"key", "name", "id", "a", "value", "k9"}
	for i := 0; i < n; i++ {
		f := randModelFmt(r)
		h := vh.NewHandle(f.name, f.eo)
		g := vh.ItemGen{MaxDepth: 1 + r.Intn(3), ValidUTF8: true, BigLens: r.Chance(1, 5), NoNilKey: true}
		if f.name == "binc" {
			g.Syms = syms
		}
		cnt := 1 + r.Intn(6)
		items := make([]*vh.Item, cnt)
		modes := make([]int, cnt)
		for k := range items {
			modes[k] = r.PickInt(0, 0, 1, 1, 2)
			it := vh.RandItem(r, g, 0)
			if signedOpt, _ := f.eo["SignedInteger"].(bool); signedOpt {
				// in range for int64: an unsigned value >= 2^63 is an overflow error under SignedInteger (C07/C15)
				it.Walk(func(x *vh.Item) {
					if x.K == vh.IUint && x.U >= 1<<63 {
						x.U >>= 1
					}
				})
			}
			if modes[k] == 2 {
				it = &vh.Item{K: vh.IMap, M: [][2]*vh.Item{{{K: vh.IStr, S: []byte(r.PickString("x", "key", "zz"))}, it}}}
			}
			items[k] = it
		}
		var out []byte
		e := codec.NewEncoderBytes(&out, h)
		ends := make([]int, cnt)
		cj := map[string]interface{}{"format": f.name, "opts": f.eo.String(), "seed_index": i, "items": coqItems(items), "modes": fmt.Sprint(modes)}
		failed := false
		for k, it := range items {
			if err := e.Encode(vh.ItemToGo(it, r.Bool())); err != nil {
				cj["err"] = err.Error()
				sum.FailC("model", "c11:"+f.name+":model:encode-error", "Encode of an item-level value returned an error", cj)
				failed = true
				break
			}
			ends[k] = len(out)
		}
		if failed {
			continue
		}
		cj["bytes"] = vh.Hex(out)
		d := codec.NewDecoderBytes(out, h)
		oItems := make([]*vh.Item, cnt)
		oRaws := make([][]byte, cnt)
		oRead := make([]int, cnt)
		for k := range items {
			var err error
			oItems[k] = &vh.Item{K: vh.INil}
			switch modes[k] {
			case 0:
				var x interface{}
				if err = d.Decode(&x); err == nil {
					it, ok := vh.ItemFromGo(x)
					if !ok {
						cj["got"] = vh.Canon(x)
						sum.FailC("model", "c11:"+f.name+":model:naked-type", "Decode(&interface{}) produced a value outside the documented dynamic types", cj)
					}
					oItems[k] = it
				}
			case 1:
				var raw codec.Raw
				err = d.Decode(&raw)
				oRaws[k] = raw
			case 2:
				var u unknownField
				err = d.Decode(&u)
			}
			if err != nil {
				cj["err"], cj["position"] = err.Error(), k
				sum.FailC("model", fmt.Sprintf("c11:%s:model:decode-error:mode%d", f.name, modes[k]), "Decode of the i-th value of a sequence written by one Encoder returned an error", cj)
				failed = true
				break
			}
			oRead[k] = d.NumBytesRead()
			if oRead[k] != ends[k] {
				cj["position"], cj["numread"], cj["want"] = k, oRead[k], ends[k]
				sum.FailC("model", fmt.Sprintf("c11:%s:model:numread:mode%d", f.name, modes[k]), "NumBytesRead after the i-th Decode differs from the length of the first i encodings", cj)
				failed = true
				break
			}
			if modes[k] == 1 {
				lo := 0
				if k > 0 {
					lo = ends[k-1]
				}
				if !bytes.Equal(oRaws[k], out[lo:ends[k]]) {
					cj["position"], cj["raw"] = k, vh.Hex(oRaws[k])
					sum.FailC("model", "c11:"+f.name+":model:raw-bytes", "Decode(&Raw) did not capture exactly the bytes the i-th Encode wrote", cj)
					failed = true
					break
				}
			}
		}
		if failed {
			continue
		}
		cv.Add(fmt.Sprintf("mkcase %d %s %s %s %s %s %s %s %s", i, f.coq, coqItems(items), vh.CoqBytes(out), coqNs(ends), coqNs(modes),
			coqItems(oItems), coqByteLists(oRaws), coqNs(oRead)))
		sum.ModelCases++
		kinds := map[string]bool{}
		for _, it := range items {
			it.Walk(func(x *vh.Item) { kinds[fmt.Sprint(int(x.K))] = true })
		}
		ks := make([]string, 0, len(kinds))
		for k := range kinds {
			ks = append(ks, k)
		}
		sort.Strings(ks)
		sum.Count("model."+f.name, fmt.Sprintf("model/%s/%s/%v/%s", f.name, f.eo.String(), modes, strings.Join(ks, "")))
		for _, m := range modes {
			sum.Dist[fmt.Sprintf("model.mode%d", m)]++
		}
	}
	if ext {
		extStream(sum, cv) // deterministic; its item-level sequences join the model cases
	}
	cv.Close()
}

func main() {
	nSeq := flag.Int("seq", 1500, "API-level sequences over the five formats")
	nModel := flag.Int("model", 400, "item-level sequences compared with the Coq sequence model")
	cases := flag.String("cases", "/verif/build/c11/cases_c11", "directory for the model case files")
	nLong := flag.Int("long", 1, "rounds of the long stream (every format x container family x read mode, lowered MaxDepth)")
	nDeep := flag.Int("deep", 3, "long runs per format with the default MaxDepth and 1100..2500 records")
	ext := flag.Bool("ext", true, "the deterministic extension-value stream (ext.go)")
	flag.Parse()
	r := vh.NewRng(vh.SeedFromEnv())
	sum := vh.NewSummary("seq: sequences of 1..12 random typed values on ONE Encoder / ONE Decoder, five formats, bytes/io transports on both sides, random encoder option vectors, a random consumer per position (typed, interface{}, Raw, struct lacking fields / short struct-as-array / short array = swallow, Raw and interface{} struct fields); oracles NumBytesRead == prefix sums of the encodings, values, Raw bytes, re-emission, end of stream. model: item-level sequences (cbor, msgpack, simple, binc) with modes naked/raw/skip compared with the Coq sequence model (bytes, extents, NumBytesRead, trees, Raw). long: per format x container family (16..40-entry map, fixmap, 16+ array, 20-field struct, long strings, nested, ext, time) x read mode (struct lacking the field / Raw / mix), 60..250 records under MaxDepth 16..64 and 1100..2500 records under the default MaxDepth on ONE Encoder / ONE Decoder: no error, NumBytesRead prefix sums, fields, Raw bytes, end of stream. ext (deterministic, seed-independent): an extension value with an unregistered tag (msgpack / simple / binc RawExt payload lengths 0..65536 = every fixext / ext8 / ext16 / ext32 head and length form, several tags; cbor tags of every head width in front of each kind of value) at each position of a 3-value sequence on ONE Encoder / ONE Decoder, neighbours numbers or strings, each consumer (RawExt, *RawExt, interface{}, Raw; as a struct field read typed / as pointer / interface{} / Raw / absent / whole into interface{} / whole as Raw; as slice and map elements read typed, into interface{}, Raw, a shorter array, a struct lacking the key, []RawExt, map[string]RawExt), bytes and four io transports: no error, NumBytesRead prefix sums, tag and payload / tagged value, Raw bytes, neighbours, end of stream; the same items as model cases (IExt / ITag). distinct_nontrivial = distinct (stream, format, transports, option vector, per-position mode list [+ item kinds], length) tuples of successful evaluations")
	rs := r.Fork()
	for i := 0; i < *nSeq; i++ {
		runSeq(rs, vh.Formats[i%len(vh.Formats)], i, sum)
	}
	modelStream(r.Fork(), *nModel, *cases, sum, *ext)
	longStream(r.Fork(), *nLong, *nDeep, sum)
	sum.Print()
}

package main

// ext.go: stream "ext" of harness/cmd/c11 (deterministic, independent of the seed).
//
// Extension values are values like any other: every consumer must stop where the
// encoder stopped writing them.  The random corpora of the seq / model streams
// hold no codec.RawExt, and the long stream only has it behind a struct field of
// records whose decoded content is not compared.  Here an extension value E with
// an UNREGISTERED tag
//
//	msgpack, simple, binc   RawExt{Tag, Data}: payload lengths 0 1 2 3 4 5 8 9 15 16 17 31 32
//	                        255 256 257 65535 65536 (every fixext / ext8 / ext16 / ext32 head of
//	                        msgpack and every length form of simple / binc), several tags
//	cbor                    RawExt{Tag, Value}: a tag in front of each kind of value (nil, bool,
//	                        ints, float, strings, bytes, arrays, maps, another tag), tags with
//	                        every head width
//
// is a member of a sequence of three values written by ONE Encoder and read by
// ONE Decoder, at each position, next to neighbours that are numbers (the
// Decoder has then never met a byte string) or strings / byte strings, with each
// consumer:
//
//	bare    Decode(&RawExt) | Decode(&interface{}) | Decode(&Raw)
//	rec     struct {A; X RawExt; Z} read as the same struct, with X *RawExt, X interface{},
//	        X Raw, without X (unknown key / excess array element under StructToArray),
//	        whole into interface{}, whole as Raw
//	slice   []interface{}{E, 42, "next", E} read as []interface{}, interface{}, Raw, a shorter
//	        Go array; []interface{}{E, E} read as []RawExt
//	map     {"a": E, "b": "next", "c": 42} read as map[string]interface{}, interface{}, Raw, a
//	        struct lacking "a", a struct with an interface{} field for "a"; {"a": E} read as
//	        map[string]RawExt
//
// on the bytes transport and four io transports.  Oracles: no error;
// NumBytesRead after call i == length of the first i encodings; the extension
// comes back with its tag and exactly its payload (bytes formats: no Value;
// cbor: the tagged value), whoever read it; Raw == the encoder's bytes; the
// neighbours are unharmed; the stream is at its end.
//
// The same extension items, as item-level sequences with modes naked / Raw /
// skip, are appended to the model stream's Coq cases (IExt for msgpack, simple,
// binc; ITag for cbor) for C11/Corr.v.

import (
	"bytes"
	"fmt"
	"reflect"
	"sort"
	"strings"

	"verifharness/vh"

	"github.com/ugorji/go/codec"
)

type xvec struct {
	format string
	o      vh.Opts
	coq    string // the option vector for C11/Corr.v
}

func extVectors() []xvec {
	mk := func(format, coq string, kv ...interface{}) xvec {
		o := vh.Opts{"Raw": true, "Canonical": true}
		for i := 0; i+1 < len(kv); i += 2 {
			o[kv[i].(string)] = kv[i+1]
		}
		return xvec{format, o, coq}
	}
	return []xvec{
		mk("msgpack", "(fmsgpack true false false false false false)", "WriteExt", true),
		mk("msgpack", "(fmsgpack true false false false true false)", "WriteExt", true, "RawToString", true),
		mk("msgpack", "(fmsgpack false false false false true false)", "RawToString", true),
		mk("msgpack", "(fmsgpack true false false false false false)", "WriteExt", true, "StructToArray", true),
		mk("simple", "(fsimple false false false)"),
		mk("simple", "(fsimple false false true)", "RawToString", true),
		mk("simple", "(fsimple false false false)", "StructToArray", true),
		mk("binc", "(fbinc false false false false)"),
		mk("binc", "(fbinc true false false false)", "AsSymbols", 1),
		mk("binc", "(fbinc false false false true)", "RawToString", true, "StructToArray", true),
		mk("cbor", "(fcbor false false false false false false)"),
		mk("cbor", "(fcbor true false false false false false)", "IndefiniteLength", true),
		mk("cbor", "(fcbor false false false false false true)", "RawToString", true, "StructToArray", true),
	}
}

var extLens = []int{0, 1, 2, 3, 4, 5, 8, 9, 15, 16, 17, 31, 32, 255, 256, 257, 65535, 65536}

func extData(n, salt int) []byte {
	b := make([]byte, n)
	for i := range b {
		b[i] = byte(0xc0 + (i*37+n+salt)%64) // container / ext / str heads of every format
	}
	return b
}

type xext struct {
	re   codec.RawExt
	desc string
}

func extCorpus(format string) []xext {
	var out []xext
	if format != "cbor" {
		for _, n := range extLens {
			out = append(out, xext{codec.RawExt{Tag: 7, Data: extData(n, 0)}, fmt.Sprintf("tag=7,len=%d", n)})
		}
		tags := []uint64{0, 1, 127, 128, 254}
		if format != "msgpack" {
			tags = append(tags, 255) // msgpack: 0xff is the timestamp extension
		}
		for _, t := range tags {
			for _, n := range []int{0, 1} {
				out = append(out, xext{codec.RawExt{Tag: t, Data: extData(n, int(t))}, fmt.Sprintf("tag=%d,len=%d", t, n)})
			}
		}
		return out
	}
	vals := []struct {
		n string
		v interface{}
	}{
		{"nil", nil}, {"true", true}, {"0", uint64(0)}, {"42", uint64(42)}, {"-1", int64(-1)}, {"2^40", uint64(1) << 40}, {"-2^40", -(int64(1) << 40)},
		{"3.5", float64(3.5)}, {"emptystr", ""}, {"str", "str"}, {"str24", strings.Repeat("s", 24)}, {"emptybytes", []byte{}}, {"bytes", []byte{1, 2, 0xc7}},
		{"emptyarr", []interface{}{}}, {"arr", []interface{}{uint64(1), "a", []byte{2}}}, {"emptymap", map[string]interface{}{}},
		{"map", map[string]interface{}{"k": uint64(1), "l": "v"}},
		{"tag", codec.RawExt{Tag: 101, Value: "x"}}, {"tag-nil", codec.RawExt{Tag: 102}}, {"tag-tag-arr", codec.RawExt{Tag: 103, Value: codec.RawExt{Tag: 104, Value: []interface{}{uint64(9)}}}},
	}
	for _, x := range vals {
		out = append(out, xext{codec.RawExt{Tag: 100, Value: x.v}, "tag=100,value=" + x.n})
	}
	for _, t := range []uint64{6, 23, 24, 255, 256, 65535, 65536, 1<<32 - 1, 1 << 32} {
		out = append(out, xext{codec.RawExt{Tag: t}, fmt.Sprintf("tag=%d,value=nil", t)})
		out = append(out, xext{codec.RawExt{Tag: t, Value: "x"}, fmt.Sprintf("tag=%d,value=str", t)})
	}
	return out
}

// ---- destination types ----

type xRec struct {
	A int32
	X codec.RawExt
	Z string
}
type xRecPtr struct {
	A int32
	X *codec.RawExt
	Z string
}
type xRecIface struct {
	A int32
	X interface{}
	Z string
}
type xRecRaw struct {
	A int32
	X codec.Raw
	Z string
}
type xRecLack struct {
	A int32
	Z string
}
type xRecShort struct{ A int32 }
type xMapLack struct {
	B string `codec:"b"`
	C int64  `codec:"c"`
}
type xMapIface struct {
	A interface{} `codec:"a"`
	B string      `codec:"b"`
	C int64       `codec:"c"`
}

// ---- canonical rendering with extensions ----

func xcanon(v interface{}) string {
	var sb strings.Builder
	xcanonTo(&sb, v)
	return sb.String()
}

func xcanonTo(sb *strings.Builder, v interface{}) {
	switch x := v.(type) {
	case codec.RawExt:
		fmt.Fprintf(sb, "ext(%d,%x,", x.Tag, x.Data)
		xcanonTo(sb, x.Value)
		sb.WriteString(")")
	case *codec.RawExt:
		if x == nil {
			sb.WriteString("nilext")
			return
		}
		xcanonTo(sb, *x)
	case []interface{}:
		if x == nil {
			sb.WriteString("nilslice")
			return
		}
		sb.WriteString("[")
		for i, e := range x {
			if i > 0 {
				sb.WriteString(",")
			}
			xcanonTo(sb, e)
		}
		sb.WriteString("]")
	case map[interface{}]interface{}:
		kvs := make([]string, 0, len(x))
		for k, e := range x {
			kvs = append(kvs, xcanon(k)+":"+xcanon(e))
		}
		sort.Strings(kvs)
		sb.WriteString("map{" + strings.Join(kvs, ",") + "}")
	case map[string]interface{}:
		kvs := make([]string, 0, len(x))
		for k, e := range x {
			kvs = append(kvs, xcanon(k)+":"+xcanon(e))
		}
		sort.Strings(kvs)
		sb.WriteString("map{" + strings.Join(kvs, ",") + "}")
	default:
		sb.WriteString(vh.Canon(v))
	}
}

// what Decode(&interface{}) must give for a sent value: extensions as themselves (bytes formats: the payload; cbor:
// the tagged value as decoded schema-less), containers element-wise, everything else as its standalone schema-less
// decoding (no extension involved)
func xwant(h codec.Handle, cbor, toArray bool, v interface{}) interface{} {
	switch x := v.(type) {
	case codec.RawExt:
		if cbor {
			return codec.RawExt{Tag: x.Tag, Value: xwant(h, cbor, toArray, x.Value)}
		}
		return codec.RawExt{Tag: x.Tag, Data: append([]byte(nil), x.Data...)}
	case *codec.RawExt:
		return xwant(h, cbor, toArray, *x)
	case []interface{}:
		out := make([]interface{}, len(x))
		for i, e := range x {
			out[i] = xwant(h, cbor, toArray, e)
		}
		return out
	case map[string]interface{}:
		out := map[interface{}]interface{}{}
		for k, e := range x {
			out[xwant(h, cbor, toArray, k)] = xwant(h, cbor, toArray, e)
		}
		return out
	case xRec:
		if toArray {
			return []interface{}{xwant(h, cbor, toArray, x.A), xwant(h, cbor, toArray, x.X), xwant(h, cbor, toArray, x.Z)}
		}
		return map[interface{}]interface{}{xwant(h, cbor, toArray, "A"): xwant(h, cbor, toArray, x.A), xwant(h, cbor, toArray, "X"): xwant(h, cbor, toArray, x.X),
			xwant(h, cbor, toArray, "Z"): xwant(h, cbor, toArray, x.Z)}
	case nil:
		return nil
	}
	var b []byte
	if err := codec.NewEncoderBytes(&b, h).Encode(v); err != nil {
		panic(err)
	}
	var out interface{}
	if err := codec.NewDecoderBytes(b, h).Decode(&out); err != nil {
		panic(err)
	}
	return out
}

// ---- one sequence ----

type xslot struct {
	send interface{}
	how  string
	// read consumes the value from d; own = the bytes the encoder wrote for it. It returns a stable description of
	// what is wrong with the value read ("" = nothing)
	read func(d *codec.Decoder, own []byte) (string, error)
}

type xctx struct {
	xv      xvec
	h       codec.Handle
	cbor    bool
	toArray bool
}

func (c *xctx) want(v interface{}) string { return xcanon(xwant(c.h, c.cbor, c.toArray, v)) }

func (c *xctx) extDiff(got *codec.RawExt, e codec.RawExt) string {
	if got == nil {
		return "nil *RawExt"
	}
	if got.Tag != e.Tag {
		return "tag"
	}
	if c.cbor {
		if len(got.Data) != 0 {
			return "Data set for a tagged value"
		}
		if xcanon(got.Value) != c.want(e.Value) {
			return "tagged value"
		}
		return ""
	}
	if got.Value != nil {
		return "Value set for a bytes extension"
	}
	if !bytes.Equal(got.Data, e.Data) {
		return "payload"
	}
	return ""
}

func (c *xctx) nakedSlot(v interface{}, how string) xslot {
	want := c.want(v)
	return xslot{v, how, func(d *codec.Decoder, own []byte) (string, error) {
		var x interface{}
		if err := d.Decode(&x); err != nil {
			return "", err
		}
		if got := xcanon(x); got != want {
			return "decoded into interface{}: " + firstDiffClass(got, want), nil
		}
		return "", nil
	}}
}

// a short stable description of how two canonical renderings differ
func firstDiffClass(got, want string) string {
	switch {
	case strings.Contains(want, "ext(") && !strings.Contains(got, "ext("):
		return "no RawExt where one was written"
	case strings.Count(want, "ext(") != strings.Count(got, "ext("):
		return "different number of RawExt values"
	case len(got) != len(want):
		return "different content (other size)"
	}
	return "different content"
}

func (c *xctx) rawSlot(v interface{}, how string) xslot {
	return xslot{v, how, func(d *codec.Decoder, own []byte) (string, error) {
		var raw codec.Raw
		if err := d.Decode(&raw); err != nil {
			return "", err
		}
		if !bytes.Equal(raw, own) {
			return "Raw differs from the bytes the encoder wrote", nil
		}
		return "", nil
	}}
}

// typed: decode into a new value of dst's type, compare with check
func typedSlot(v interface{}, how string, dst reflect.Type, check func(got reflect.Value) string) xslot {
	return xslot{v, how, func(d *codec.Decoder, own []byte) (string, error) {
		p := reflect.New(dst)
		if err := d.Decode(p.Interface()); err != nil {
			return "", err
		}
		return check(p.Elem()), nil
	}}
}

func (c *xctx) extSlots(e codec.RawExt) []xslot {
	var out []xslot
	ep := e
	// ---- bare ----
	out = append(out, typedSlot(&ep, "bare:typed", reflect.TypeOf(codec.RawExt{}), func(g reflect.Value) string {
		x := g.Interface().(codec.RawExt)
		return c.extDiff(&x, e)
	}))
	out = append(out, typedSlot(e, "bare:typed-ptr", reflect.TypeOf((*codec.RawExt)(nil)), func(g reflect.Value) string {
		return c.extDiff(g.Interface().(*codec.RawExt), e)
	}))
	out = append(out, c.nakedSlot(e, "bare:naked"))
	out = append(out, c.nakedSlot(&ep, "bare:naked-sentptr"))
	out = append(out, c.rawSlot(e, "bare:raw"))
	// ---- rec ----
	rec := xRec{A: 5, X: e, Z: "zed"}
	az := func(a int32, z string) string {
		if a != 5 {
			return "field A"
		}
		if z != "zed" {
			return "field Z (after the extension)"
		}
		return ""
	}
	out = append(out, typedSlot(rec, "rec:typed", reflect.TypeOf(xRec{}), func(g reflect.Value) string {
		x := g.Interface().(xRec)
		if s := c.extDiff(&x.X, e); s != "" {
			return s
		}
		return az(x.A, x.Z)
	}))
	out = append(out, typedSlot(rec, "rec:ptrfield", reflect.TypeOf(xRecPtr{}), func(g reflect.Value) string {
		x := g.Interface().(xRecPtr)
		if s := c.extDiff(x.X, e); s != "" {
			return s
		}
		return az(x.A, x.Z)
	}))
	wantE := c.want(e)
	out = append(out, typedSlot(rec, "rec:ifacefield", reflect.TypeOf(xRecIface{}), func(g reflect.Value) string {
		x := g.Interface().(xRecIface)
		if got := xcanon(x.X); got != wantE {
			return "interface{} field: " + firstDiffClass(got, wantE)
		}
		return az(x.A, x.Z)
	}))
	var encE []byte
	if err := codec.NewEncoderBytes(&encE, c.h).Encode(e); err != nil {
		panic(err)
	}
	out = append(out, typedSlot(rec, "rec:rawfield", reflect.TypeOf(xRecRaw{}), func(g reflect.Value) string {
		x := g.Interface().(xRecRaw)
		if !bytes.Equal(x.X, encE) {
			return "Raw field differs from the bytes the encoder writes for the extension"
		}
		return az(x.A, x.Z)
	}))
	if c.toArray {
		out = append(out, typedSlot(rec, "rec:lack", reflect.TypeOf(xRecShort{}), func(g reflect.Value) string {
			return az(g.Interface().(xRecShort).A, "zed")
		}))
	} else {
		out = append(out, typedSlot(rec, "rec:lack", reflect.TypeOf(xRecLack{}), func(g reflect.Value) string {
			x := g.Interface().(xRecLack)
			return az(x.A, x.Z)
		}))
	}
	out = append(out, c.nakedSlot(rec, "rec:naked"))
	out = append(out, c.rawSlot(rec, "rec:raw"))
	// ---- slice ----
	sl := []interface{}{e, int64(42), "next", &ep}
	wantSl := c.want(sl)
	out = append(out, c.nakedSlot(sl, "slice:naked"))
	out = append(out, typedSlot(sl, "slice:typed", reflect.TypeOf([]interface{}(nil)), func(g reflect.Value) string {
		if got := xcanon(g.Interface()); got != wantSl {
			return "[]interface{}: " + firstDiffClass(got, wantSl)
		}
		return ""
	}))
	out = append(out, typedSlot(sl, "slice:shortarray", reflect.TypeOf([1]interface{}{}), func(g reflect.Value) string {
		if got := xcanon(g.Index(0).Interface()); got != wantE {
			return "[1]interface{}: " + firstDiffClass(got, wantE)
		}
		return ""
	}))
	out = append(out, c.rawSlot(sl, "slice:raw"))
	out = append(out, typedSlot([]interface{}{e, &ep}, "slice:exts", reflect.TypeOf([]codec.RawExt(nil)), func(g reflect.Value) string {
		x := g.Interface().([]codec.RawExt)
		if len(x) != 2 {
			return "length"
		}
		for i := range x {
			if s := c.extDiff(&x[i], e); s != "" {
				return s
			}
		}
		return ""
	}))
	// ---- map ----
	m := map[string]interface{}{"a": e, "b": "next", "c": int64(42)}
	wantM := c.want(m)
	out = append(out, c.nakedSlot(m, "map:naked"))
	out = append(out, typedSlot(m, "map:typed", reflect.TypeOf(map[string]interface{}(nil)), func(g reflect.Value) string {
		if got := xcanon(g.Interface()); got != wantM {
			return "map[string]interface{}: " + firstDiffClass(got, wantM)
		}
		return ""
	}))
	out = append(out, c.rawSlot(m, "map:raw"))
	bc := func(b string, cc int64) string {
		if b != "next" {
			return "entry b (after the extension)"
		}
		if cc != 42 {
			return "entry c (after the extension)"
		}
		return ""
	}
	out = append(out, typedSlot(m, "map:lack", reflect.TypeOf(xMapLack{}), func(g reflect.Value) string {
		x := g.Interface().(xMapLack)
		return bc(x.B, x.C)
	}))
	out = append(out, typedSlot(m, "map:ifacefield", reflect.TypeOf(xMapIface{}), func(g reflect.Value) string {
		x := g.Interface().(xMapIface)
		if got := xcanon(x.A); got != wantE {
			return "interface{} field: " + firstDiffClass(got, wantE)
		}
		return bc(x.B, x.C)
	}))
	out = append(out, typedSlot(map[string]interface{}{"a": e}, "map:exts", reflect.TypeOf(map[string]codec.RawExt(nil)), func(g reflect.Value) string {
		x := g.Interface().(map[string]codec.RawExt)
		y, ok := x["a"]
		if !ok || len(x) != 1 {
			return "entries"
		}
		return c.extDiff(&y, e)
	}))
	return out
}

// neighbours: set 0 holds numbers only (a Decoder that has read them has never produced a byte string), set 1 strings
// and byte strings
func (c *xctx) neighbour(set, j int, naked bool) xslot {
	var v interface{}
	switch {
	case set == 0 && j == 0:
		v = int64(42)
	case set == 0:
		v = int64(-7)
	case j == 0:
		v = "next"
	default:
		v = []byte{0xc7, 0x00, 0x07} // what a zero-length msgpack extension looks like
	}
	if naked {
		return c.nakedSlot(v, "neighbour:naked")
	}
	return typedSlot(v, "neighbour:typed", reflect.TypeOf(v), func(g reflect.Value) string {
		if !reflect.DeepEqual(g.Interface(), v) {
			return "different value"
		}
		return ""
	})
}

var extTransports = []string{"bytes", "io-buffered", "io-unbuffered", "io-bytereader", "io-short"}

func headClass(format string, e codec.RawExt) string {
	if format == "cbor" {
		return "tagged-value"
	}
	n := len(e.Data)
	switch {
	case n == 0:
		return "len=0"
	case format == "msgpack" && (n == 1 || n == 2 || n == 4 || n == 8 || n == 16):
		return "fixext"
	case n < 256:
		return "len<2^8"
	case n < 65536:
		return "len<2^16"
	}
	return "len>=2^16"
}

func extStream(sum *vh.Summary, cv *vh.Cases) {
	for _, xv := range extVectors() {
		c := &xctx{xv: xv, h: vh.NewHandle(xv.format, xv.o), cbor: xv.format == "cbor"}
		c.toArray, _ = xv.o["StructToArray"].(bool)
		hio := map[string]codec.Handle{
			"io-buffered":   vh.NewHandle(xv.format, vh.CopyOpts(xv.o, "ReaderBufferSize", 4096)),
			"io-unbuffered": c.h, "io-bytereader": c.h, "io-short": c.h,
		}
		hw := vh.NewHandle(xv.format, vh.CopyOpts(xv.o, "WriterBufferSize", 16))
		for xi, xe := range extCorpus(xv.format) {
			big := len(xe.re.Data) >= 65535
			// every transport for the zero-length payload and the tag-only forms; bytes + two of the four io transports
			// (in rotation) for the others
			allTr := (xv.format != "cbor" && len(xe.re.Data) == 0) || (xv.format == "cbor" && xe.re.Value == nil)
			for si, es := range c.extSlots(xe.re) {
				for p := 0; p < 3; p++ {
					for set := 0; set < 2; set++ {
						seq := make([]xslot, 3)
						nj := 0
						for i := range seq {
							if i == p {
								seq[i] = es
							} else {
								seq[i] = c.neighbour(set, nj, (i+p+set)%2 == 0)
								nj++
							}
						}
						for ti, tr := range extTransports {
							if big && (p+set+ti)%3 != 0 {
								continue // 64 KiB payloads: a third of the combinations
							}
							if !allTr && ti > 0 && (xi+si+p+set+ti)%2 != 0 {
								continue
							}
							runExtSeq(c, xe, es.how, p, set, tr, hio[tr], hw, seq, sum)
						}
					}
				}
			}
		}
	}
	extModelCases(sum, cv)
}

func runExtSeq(c *xctx, xe xext, how string, p, set int, tr string, hr, hw codec.Handle, seq []xslot, sum *vh.Summary) {
	format := c.xv.format
	cj := map[string]interface{}{"format": format, "opts": c.xv.o.String(), "ext": xe.desc, "head": headClass(format, xe.re), "consumer": how,
		"position": p, "neighbours": []string{"numbers", "strings"}[set], "dec_transport": tr}
	fail := func(kind, what string, extra map[string]interface{}) {
		cc := map[string]interface{}{}
		for k, v := range cj {
			cc[k] = v
		}
		for k, v := range extra {
			cc[k] = v
		}
		sum.FailC("ext", "c11:"+format+":ext:"+how+":"+kind, what, cc)
	}
	// ---- encode: ONE Encoder (bytes, or a buffered writer when the position is odd) ----
	var out []byte
	var buf bytes.Buffer
	var e *codec.Encoder
	encIO := (p+set)%2 == 1
	if encIO {
		e = codec.NewEncoder(&buf, hw)
	} else {
		e = codec.NewEncoderBytes(&out, c.h)
	}
	ends := make([]int, len(seq))
	for i, s := range seq {
		if err := e.Encode(s.send); err != nil {
			fail("encode-error", "Encode of a sequence holding an extension value returned an error", map[string]interface{}{"index": i, "err": err.Error()})
			return
		}
		if encIO {
			ends[i] = buf.Len()
		} else {
			ends[i] = len(out)
		}
	}
	if encIO {
		out = append([]byte(nil), buf.Bytes()...)
	}
	hx := vh.Hex(out)
	if len(hx) > 400 {
		hx = hx[:400] + "..."
	}
	cj["bytes"], cj["ends"] = hx, fmt.Sprint(ends)
	// ---- decode: ONE Decoder ----
	var d *codec.Decoder
	switch tr {
	case "bytes":
		d = codec.NewDecoderBytes(out, hr2(hr, c.h))
	case "io-buffered", "io-unbuffered":
		d = codec.NewDecoder(vh.OnlyReader{R: bytes.NewReader(out)}, hr)
	case "io-bytereader":
		d = codec.NewDecoder(bytes.NewReader(out), hr)
	case "io-short":
		n := 1
		if len(out) > 1000 {
			n = 7
		}
		d = codec.NewDecoder(&vh.ShortReader{R: bytes.NewReader(out), N: n}, hr)
	}
	for i, s := range seq {
		lo := 0
		if i > 0 {
			lo = ends[i-1]
		}
		ex := map[string]interface{}{"index": i, "how": s.how}
		bad, err := s.read(d, out[lo:ends[i]])
		if err != nil {
			ex["err"] = err.Error()
			k := "decode-error"
			if i != p {
				k = "decode-error:neighbour"
			}
			fail(k, "Decode of the i-th value of a sequence holding an extension value, written by one Encoder, returned an error", ex)
			return
		}
		if nr := d.NumBytesRead(); nr != ends[i] {
			ex["numread"], ex["want"] = nr, ends[i]
			k := "numread"
			if i != p {
				k = "numread:neighbour"
			}
			fail(k, "NumBytesRead after the i-th Decode differs from the length of the first i encodings (sequence holding an extension value)", ex)
			return
		}
		if bad != "" {
			ex["diff"] = bad
			k := "value:" + bad
			if i != p {
				k = "neighbour-value:" + bad
			}
			fail(k, "a value of a sequence holding an extension value read back differently from what was written", ex)
			return
		}
	}
	var extra interface{}
	if err := d.Decode(&extra); err == nil || !isEOF(err) {
		fail("trailing", "after n Decode calls the stream written by n Encode calls is not at its end", map[string]interface{}{"err": fmt.Sprint(err)})
		return
	}
	sum.Count("ext."+format, fmt.Sprintf("ext/%s/%s/%s/%s/p%d/n%d/%s", format, c.xv.o.String(), xe.desc, how, p, set, tr))
	sum.Dist["ext.consumer."+how]++
	sum.Dist["ext.head."+format+"."+headClass(format, xe.re)]++
	sum.Dist["ext.dec."+tr]++
}

func hr2(hr, h codec.Handle) codec.Handle {
	if hr != nil {
		return hr
	}
	return h
}

// ---------------- extension items for the Coq sequence model ----------------

// xcoq prints a Go value (sent, or decoded into interface{}) as a Wire/Item.v term
func xcoq(v interface{}, cbor bool) string {
	switch x := v.(type) {
	case codec.RawExt:
		if cbor {
			return "(ITag " + vh.CoqN(x.Tag) + " " + xcoq(x.Value, cbor) + ")"
		}
		return "(IExt " + vh.CoqN(x.Tag) + " " + vh.CoqBytes(x.Data) + ")"
	case *codec.RawExt:
		return xcoq(*x, cbor)
	case []interface{}:
		parts := make([]string, len(x))
		for i, e := range x {
			parts[i] = xcoq(e, cbor)
		}
		return "(IArr [" + strings.Join(parts, ";") + "])"
	case vh.MBS:
		parts := make([]string, 0, len(x)/2)
		for i := 0; i+1 < len(x); i += 2 {
			parts = append(parts, "("+xcoq(x[i], cbor)+","+xcoq(x[i+1], cbor)+")")
		}
		return "(IMap [" + strings.Join(parts, ";") + "])"
	case map[interface{}]interface{}:
		parts := make([]string, 0, len(x))
		for k, e := range x {
			parts = append(parts, "("+xcoq(k, cbor)+","+xcoq(e, cbor)+")")
		}
		sort.Strings(parts)
		return "(IMap [" + strings.Join(parts, ";") + "])"
	}
	it, ok := vh.ItemFromGo(v)
	if !ok {
		return "(IStr [])" // reported by the caller
	}
	return it.Coq()
}

func hasUnexpected(v interface{}) bool {
	switch x := v.(type) {
	case codec.RawExt:
		return hasUnexpected(x.Value)
	case *codec.RawExt:
		return x == nil || hasUnexpected(x.Value)
	case []interface{}:
		for _, e := range x {
			if hasUnexpected(e) {
				return true
			}
		}
		return false
	case map[interface{}]interface{}:
		for k, e := range x {
			if hasUnexpected(k) || hasUnexpected(e) {
				return true
			}
		}
		return false
	}
	_, ok := vh.ItemFromGo(v)
	return !ok
}

func extModelCases(sum *vh.Summary, cv *vh.Cases) {
	id := 1000000
	for _, xv := range extVectors() {
		if ta, _ := xv.o["StructToArray"].(bool); ta {
			continue // item-level values hold no structs: the vector adds nothing here
		}
		cbor := xv.format == "cbor"
		o := vh.Opts{}
		for k, v := range xv.o {
			if k != "Canonical" { // the model writes maps in the listed order (MapBySlice)
				o[k] = v
			}
		}
		h := vh.NewHandle(xv.format, o)
		for _, xe := range extCorpus(xv.format) {
			if len(xe.re.Data) > 300 {
				continue
			}
			e := xe.re
			if cbor {
				// the model's items: maps as MapBySlice
				e = cborMBS(e).(codec.RawExt)
			}
			type mseq struct {
				vals  []interface{}
				modes []int
			}
			seqs := []mseq{
				{[]interface{}{e, int64(42), "next", e}, []int{0, 0, 0, 0}},
				{[]interface{}{e, []interface{}{e, int64(42), "next", e}, e, int64(-7)}, []int{1, 0, 2, 0}},
				{[]interface{}{vh.MBS{"a", e, "b", "next"}, e, e}, []int{0, 1, 0}},
			}
			for _, sq := range seqs {
				id++
				runExtModel(id, xv, h, cbor, xe, sq.vals, sq.modes, sum, cv)
			}
		}
	}
}

func cborMBS(v interface{}) interface{} {
	switch x := v.(type) {
	case codec.RawExt:
		return codec.RawExt{Tag: x.Tag, Value: cborMBS(x.Value)}
	case []interface{}:
		out := make([]interface{}, len(x))
		for i, e := range x {
			out[i] = cborMBS(e)
		}
		return out
	case map[string]interface{}:
		ks := make([]string, 0, len(x))
		for k := range x {
			ks = append(ks, k)
		}
		sort.Strings(ks)
		out := vh.MBS{}
		for _, k := range ks {
			out = append(out, k, cborMBS(x[k]))
		}
		return out
	}
	return v
}

func runExtModel(id int, xv xvec, h codec.Handle, cbor bool, xe xext, vals []interface{}, modes []int, sum *vh.Summary, cv *vh.Cases) {
	format := xv.format
	sent := make([]interface{}, len(vals))
	coqSent := make([]string, len(vals))
	for k, v := range vals {
		if modes[k] == 2 {
			v = vh.MBS{"x", v}
		}
		sent[k] = v
		coqSent[k] = xcoq(v, cbor)
	}
	cj := map[string]interface{}{"format": format, "opts": xv.o.String(), "ext": xe.desc, "head": headClass(format, xe.re), "items": "[" + strings.Join(coqSent, "; ") + "]",
		"modes": fmt.Sprint(modes), "case_id": id}
	var out []byte
	e := codec.NewEncoderBytes(&out, h)
	ends := make([]int, len(sent))
	for k, v := range sent {
		if err := e.Encode(v); err != nil {
			cj["err"] = err.Error()
			sum.FailC("ext", "c11:"+format+":ext:model:encode-error", "Encode of an item-level value holding an extension returned an error", cj)
			return
		}
		ends[k] = len(out)
	}
	cj["bytes"] = vh.Hex(out)
	d := codec.NewDecoderBytes(out, h)
	oItems := make([]string, len(sent))
	oRaws := make([][]byte, len(sent))
	oRead := make([]int, len(sent))
	for k := range sent {
		var err error
		oItems[k] = "INil"
		switch modes[k] {
		case 0:
			var x interface{}
			if err = d.Decode(&x); err == nil {
				if hasUnexpected(x) {
					cj["got"] = xcanon(x)
					sum.FailC("ext", "c11:"+format+":ext:model:naked-type", "Decode(&interface{}) produced a value outside the documented dynamic types", cj)
					return
				}
				oItems[k] = xcoq(x, cbor)
			}
		case 1:
			var raw codec.Raw
			err = d.Decode(&raw)
			oRaws[k] = raw
		case 2:
			var u unknownField
			err = d.Decode(&u)
		}
		if err != nil {
			cj["err"], cj["index"] = err.Error(), k
			sum.FailC("ext", fmt.Sprintf("c11:%s:ext:model:decode-error:mode%d", format, modes[k]), "Decode of the i-th value of a sequence holding an extension value, written by one Encoder, returned an error", cj)
			return
		}
		oRead[k] = d.NumBytesRead()
		if oRead[k] != ends[k] {
			cj["index"], cj["numread"], cj["want"] = k, oRead[k], ends[k]
			sum.FailC("ext", fmt.Sprintf("c11:%s:ext:model:numread:mode%d", format, modes[k]), "NumBytesRead after the i-th Decode differs from the length of the first i encodings (sequence holding an extension value)", cj)
			return
		}
	}
	cv.Add(fmt.Sprintf("mkcase %d %s %s %s %s %s %s %s %s", id, xv.coq, "["+strings.Join(coqSent, "; ")+"]", vh.CoqBytes(out), coqNs(ends), coqNs(modes),
		"["+strings.Join(oItems, "; ")+"]", coqByteLists(oRaws), coqNs(oRead)))
	sum.ModelCases++
	sum.Count("extmodel."+format, fmt.Sprintf("extmodel/%s/%s/%s/%v", format, xv.o.String(), xe.desc, modes))
}

package main

// long.go: stream "long" of harness/cmd/c11.
//
// Per format and per container family, ONE Encoder writes a long sequence of
// records {A int32; P <payload>; Z string} and ONE Decoder reads all of them
// back; the payload (a map with 16..40 entries, a fixmap, a 16+-element array, a
// struct with 20 fields, long strings / byte strings, nested containers, an
// extension, a time) sits in a position that is
//
//	lack   swallowed: the destination struct has no field P (map-encoded
//	       struct: unknown key; StructToArray: excess array element)
//	raw    inside a value captured whole with Decode(&codec.Raw)
//	mix    typed / interface{} / Raw / lack / Raw-field in rotation
//
// Everything a consumer leaves behind in the Decoder between calls (the depth
// counter, the symbol table, the pending token, the recording buffer) must be
// what it was: the decoder's depth is reset only by Reset, not per Decode, so a
// walker arm that returns one level too deep makes the (MaxDepth-1)-th such
// value of a well-formed stream fail.  Most runs lower MaxDepth to 16..64 so
// that a leak shows after few records; some runs keep the default (1024) with
// 1100..2500 records.  Oracles as for the seq stream: no error, NumBytesRead ==
// prefix sums of the encodings, the fields A and Z of every record, Raw bytes
// == the encoder's bytes, end of stream.

import (
	"bytes"
	"fmt"
	"reflect"
	"strings"
	"time"

	"verifharness/vh"

	"github.com/ugorji/go/codec"
)

var longFamilies = []string{"map16", "fixmap", "arr16", "struct20", "strings", "nested", "ext", "time"}
var longModes = []string{"lack", "raw", "mix"}

type big20 struct {
	F00, F01, F02, F03, F04, F05, F06, F07, F08, F09 int16
	F10, F11, F12, F13, F14, F15, F16, F17, F18, F19 string
}

type strs struct {
	S1 string
	B1 []byte
	S2 string
}

func longPayloadType(fam, format string) reflect.Type {
	switch fam {
	case "map16", "fixmap":
		return reflect.TypeOf(map[string]int32(nil))
	case "arr16":
		return reflect.TypeOf([]int64(nil))
	case "struct20":
		return reflect.TypeOf(big20{})
	case "strings":
		return reflect.TypeOf(strs{})
	case "nested":
		return reflect.TypeOf([]map[string][]uint16(nil))
	case "ext":
		return reflect.TypeOf(codec.RawExt{})
	case "time":
		return reflect.TypeOf([]time.Time(nil))
	}
	panic(fam)
}

func longPayload(r *vh.Rng, fam, format string, k int) reflect.Value {
	mk := func(n int) map[string]int32 {
		m := make(map[string]int32, n)
		for i := 0; i < n; i++ {
			m[fmt.Sprintf("k%d_%d", k%7, i)] = int32(r.U64())
		}
		return m
	}
	switch fam {
	case "map16":
		return reflect.ValueOf(mk(16 + r.Intn(25)))
	case "fixmap":
		return reflect.ValueOf(mk(1 + r.Intn(15)))
	case "arr16":
		n := 16 + r.Intn(25)
		a := make([]int64, n)
		for i := range a {
			a[i] = int64(r.U64()) >> uint(r.Intn(64))
		}
		return reflect.ValueOf(a)
	case "struct20":
		return reflect.ValueOf(big20{F00: int16(r.U64()), F05: int16(k), F10: "a", F19: fmt.Sprint(k)})
	case "strings":
		return reflect.ValueOf(strs{S1: strings.Repeat("s", r.PickInt(32, 255, 256, 300)), B1: r.Bytes(r.PickInt(31, 32, 256, 257)), S2: strings.Repeat("é", 20)})
	case "nested":
		n := 16 + r.Intn(4)
		a := make([]map[string][]uint16, n)
		for i := range a {
			a[i] = map[string][]uint16{}
			for j := 0; j < 16+r.Intn(3); j++ {
				a[i][fmt.Sprintf("n%d", j)] = []uint16{uint16(j), 65535}
			}
		}
		return reflect.ValueOf(a)
	case "ext":
		if format == "cbor" {
			return reflect.ValueOf(codec.RawExt{Tag: uint64(100 + k%3), Value: []interface{}{int64(k), "x"}})
		}
		// k == 0: a ZERO-length payload (descriptor + tag only)
		n := r.PickInt(1, 2, 4, 8, 16, 17, 300)
		if k%2 == 0 {
			n = 0
		}
		data := make([]byte, n)
		copy(data, r.Bytes(n))
		return reflect.ValueOf(codec.RawExt{Tag: uint64(5 + k%3), Data: data})
	case "time":
		return reflect.ValueOf([]time.Time{time.Unix(int64(1700000000+k), int64(r.Intn(1000))*1000000).UTC(), time.Unix(int64(k), 0).UTC()})
	}
	panic(fam)
}

type longRun struct {
	format, fam, mode string
	maxDepth          int // 0 = default
	n                 int
	toArray, sym, io  bool
}

func (lr longRun) String() string {
	return fmt.Sprintf("%s/%s/%s/MaxDepth=%d/n=%d/toArray=%v/sym=%v/io=%v", lr.format, lr.fam, lr.mode, lr.maxDepth, lr.n, lr.toArray, lr.sym, lr.io)
}

func runLong(r *vh.Rng, lr longRun, sum *vh.Summary) {
	o := vh.Opts{"Raw": true, "Canonical": true}
	if lr.maxDepth > 0 {
		o["MaxDepth"] = lr.maxDepth
	}
	if lr.toArray {
		o["StructToArray"] = true
	}
	if lr.sym {
		o["AsSymbols"] = 1
	}
	if lr.format == "json" {
		o["TermWhitespace"] = true
	}
	if lr.format == "msgpack" {
		o["WriteExt"] = true
	}
	h := vh.NewHandle(lr.format, o)
	pt := longPayloadType(lr.fam, lr.format)
	recT := reflect.StructOf([]reflect.StructField{
		{Name: "A", Type: reflect.TypeOf(int32(0))},
		{Name: "P", Type: pt},
		{Name: "Z", Type: reflect.TypeOf("")},
	})
	lackFs := []reflect.StructField{{Name: "A", Type: reflect.TypeOf(int32(0))}}
	if !lr.toArray {
		lackFs = append(lackFs, reflect.StructField{Name: "Z", Type: reflect.TypeOf("")})
	}
	lackT := reflect.StructOf(lackFs)
	rawFieldT := reflect.StructOf([]reflect.StructField{
		{Name: "A", Type: reflect.TypeOf(int32(0))},
		{Name: "P", Type: rawType},
		{Name: "Z", Type: reflect.TypeOf("")},
	})
	cj := map[string]interface{}{"format": lr.format, "family": lr.fam, "mode": lr.mode, "opts": o.String(), "records": lr.n, "run": lr.String()}
	fail := func(class, what string, extra map[string]interface{}) {
		c := map[string]interface{}{}
		for k, v := range cj {
			c[k] = v
		}
		for k, v := range extra {
			c[k] = v
		}
		sum.FailC("long", "c11:"+lr.format+":long:"+lr.fam+":"+lr.mode+":"+class, what, c)
	}
	// ---- encode: one Encoder ----
	var out []byte
	e := codec.NewEncoderBytes(&out, h)
	ends := make([]int, lr.n)
	npay := 5
	pays := make([]reflect.Value, npay)
	for k := range pays {
		pays[k] = longPayload(r, lr.fam, lr.format, k)
	}
	for i := 0; i < lr.n; i++ {
		rec := reflect.New(recT).Elem()
		rec.Field(0).SetInt(int64(i))
		rec.Field(1).Set(pays[i%npay])
		rec.Field(2).SetString(fmt.Sprintf("z%d", i))
		if err := e.Encode(rec.Interface()); err != nil {
			fail("encode-error", "Encode of a record in a long sequence returned an error", map[string]interface{}{"position": i, "err": err.Error()})
			return
		}
		ends[i] = len(out)
	}
	// ---- decode: one Decoder ----
	var d *codec.Decoder
	if lr.io && r.Bool() {
		// small chunks per Read (1..7 bytes), mostly unbuffered: the recording of a Raw spans many reads
		d = codec.NewDecoder(&vh.ShortReader{R: bytes.NewReader(out), N: r.PickInt(1, 3, 7)}, vh.NewHandle(lr.format, vh.CopyOpts(o, "ReaderBufferSize", r.PickInt(0, 0, 16))))
	} else if lr.io {
		d = codec.NewDecoder(vh.OnlyReader{R: bytes.NewReader(out)}, vh.NewHandle(lr.format, vh.CopyOpts(o, "ReaderBufferSize", r.PickInt(0, 64, 4096))))
	} else {
		d = codec.NewDecoderBytes(out, h)
	}
	checkAZ := func(v reflect.Value, i int, how string) bool {
		if a := v.FieldByName("A"); a.IsValid() && a.Int() != int64(i) {
			fail("value:"+how, "a record of a long sequence read back with a different field", map[string]interface{}{"position": i, "how": how, "A": a.Int()})
			return false
		}
		if z := v.FieldByName("Z"); z.IsValid() && z.String() != fmt.Sprintf("z%d", i) {
			fail("value:"+how, "a record of a long sequence read back with a different field", map[string]interface{}{"position": i, "how": how, "Z": z.String()})
			return false
		}
		return true
	}
	for i := 0; i < lr.n; i++ {
		how := lr.mode
		if lr.mode == "mix" {
			how = []string{"typed", "lack", "naked", "raw", "rawfield", "lack"}[i%6]
			if lr.fam == "ext" && how == "typed" && lr.format == "json" {
				how = "lack"
			}
		}
		var err error
		switch how {
		case "lack":
			dst := reflect.New(lackT)
			if err = d.Decode(dst.Interface()); err == nil && !checkAZ(dst.Elem(), i, how) {
				return
			}
		case "typed":
			dst := reflect.New(recT)
			if err = d.Decode(dst.Interface()); err == nil {
				if !checkAZ(dst.Elem(), i, how) {
					return
				}
				if lr.fam != "ext" && lr.fam != "time" {
					if df := vh.FirstDiff(vh.Norm(pays[i%npay], vh.FormatNorm(lr.format, o)), dst.Elem().Field(1)); df != "" {
						fail("value:typed-payload:"+df, "the payload of a record of a long sequence decoded to a different value", map[string]interface{}{"position": i})
						return
					}
				}
			}
		case "naked":
			var x interface{}
			err = d.Decode(&x)
		case "raw":
			var raw codec.Raw
			if err = d.Decode(&raw); err == nil {
				lo := 0
				if i > 0 {
					lo = ends[i-1]
				}
				want := out[lo:ends[i]]
				if lr.format == "json" {
					want = bytes.TrimRight(want, " \n")
				}
				if !bytes.Equal(raw, want) {
					fail("raw-bytes", "Decode(&Raw) did not capture exactly the bytes the i-th Encode wrote", map[string]interface{}{"position": i, "raw_len": len(raw), "want_len": len(want)})
					return
				}
			}
		case "rawfield":
			dst := reflect.New(rawFieldT)
			if err = d.Decode(dst.Interface()); err == nil {
				if !checkAZ(dst.Elem(), i, how) {
					return
				}
				if len(dst.Elem().Field(1).Bytes()) == 0 {
					fail("rawfield-empty", "a Raw struct field of a record of a long sequence is empty", map[string]interface{}{"position": i})
					return
				}
			}
		}
		if err != nil {
			cls := "decode-error"
			if strings.Contains(err.Error(), "maximum decoding depth exceeded") {
				cls = "depth-error-on-flat-stream"
			}
			fail(cls+":"+how, "Decode of the i-th value of a long well-formed sequence on one Decoder returned an error", map[string]interface{}{"position": i, "how": how, "err": err.Error()})
			return
		}
		nr := d.NumBytesRead()
		okN := nr == ends[i]
		if lr.format == "json" {
			okN = nr == ends[i] || nr == ends[i]-1
		}
		if !okN {
			fail("numread:"+how, "NumBytesRead after the i-th Decode differs from the length of the first i encodings", map[string]interface{}{"position": i, "how": how, "numread": nr, "want": ends[i]})
			return
		}
	}
	var extra interface{}
	if err := d.Decode(&extra); err == nil || !isEOF(err) {
		fail("trailing", "after n Decode calls the stream written by n Encode calls is not at its end", map[string]interface{}{"err": fmt.Sprint(err)})
		return
	}
	sum.Count("long."+lr.format, "long/"+lr.String())
	sum.Dist["long.family."+lr.fam]++
	sum.Dist["long.mode."+lr.mode]++
	if lr.maxDepth == 0 {
		sum.Dist["long.default-maxdepth."+lr.format]++
	}
	sum.Dist["long.records"] += lr.n
}

// longStream: every (format, family, mode) with a lowered MaxDepth, and `deep` runs per format with the
// default MaxDepth (1024) and 1100..2500 records.
func longStream(r *vh.Rng, rounds, deep int, sum *vh.Summary) {
	for round := 0; round < rounds; round++ {
		for _, f := range vh.Formats {
			for _, fam := range longFamilies {
				if fam == "ext" && f == "json" {
					continue
				}
				for _, mode := range longModes {
					md := 16 + r.Intn(49)
					lr := longRun{format: f, fam: fam, mode: mode, maxDepth: md, n: 3*md + 10 + r.Intn(40),
						toArray: r.Chance(1, 3), sym: f == "binc" && r.Bool(), io: r.Chance(1, 2)}
					runLong(r, lr, sum)
				}
			}
		}
	}
	for _, f := range vh.Formats {
		for k := 0; k < deep; k++ {
			fam := longFamilies[(k+r.Intn(len(longFamilies)))%len(longFamilies)]
			if k == 0 {
				fam = "map16"
			}
			if fam == "ext" && f == "json" {
				fam = "arr16"
			}
			lr := longRun{format: f, fam: fam, mode: longModes[k%len(longModes)], maxDepth: 0, n: 1100 + r.Intn(1401),
				toArray: r.Chance(1, 3), sym: f == "binc" && r.Bool(), io: r.Chance(1, 2)}
			runLong(r, lr, sum)
		}
	}
}

// c05: one deterministic stream of (format, options, type, value, inputs); for
// each case the observable results (encoded bytes, decode outcome and re-encoded
// result, schema-less decode, decode of damaged input, NumBytesRead) are written
// one line per case. The driver builds this command under every build-tag set
// and diffs the files: any differing line is a C05 counterexample.
package main

import (
	"bufio"
	"bytes"
	"flag"
	"fmt"
	"os"
	"reflect"
	"sort"
	"strings"
	"time"

	"verifharness/vh"

	"github.com/ugorji/go/codec"
)

func decOpts(r *vh.Rng, o vh.Opts) {
	if r.Chance(1, 4) {
		o["SignedInteger"] = true
	}
	if r.Chance(1, 4) {
		o["RawToString"] = true
	}
	if r.Chance(1, 4) {
		o["ZeroCopy"] = true
	}
	if r.Chance(1, 4) {
		o["InternString"] = true
	}
	if r.Chance(1, 4) {
		o["MaxInitLen"] = r.PickInt(1, 4, 64)
	}
	if r.Chance(1, 5) {
		o["PreferArrayOverSlice"] = true
	}
	if r.Chance(1, 5) {
		o["MapValueReset"] = true
	}
	if r.Chance(1, 5) {
		o["SliceElementReset"] = true
	}
	if r.Chance(1, 5) {
		o["InterfaceReset"] = true
	}
	if r.Chance(1, 5) {
		o["ErrorIfNoField"] = true
	}
	if r.Chance(1, 5) {
		o["RecursiveEmptyCheck"] = true
	}
	if r.Chance(1, 3) {
		o["NilCollectionToZeroLength"] = true
	}
}

// markers are single bytes that mean nil / undefined / break / bool / empty or indefinite container / tag
// in at least one format: substituted into valid input they reach the "unexpected item here" branches.
var markers = []byte{0x00, 0x01, 0x02, 0x03, 0x40, 0x5f, 0x60, 0x7f, 0x80, 0x90, 0x9f, 0xa0, 0xbf, 0xc0, 0xc1, 0xc2, 0xc3, 0xc4,
	0xd8, 0xe0, 0xe8, 0xf1, 0xf4, 0xf5, 0xf6, 0xf7, 0xff, '[', ']', '{', '}', 'n', '"', ','}

// sortedKeys returns the map's keys in the order of their canonical rendering (deterministic across builds).
func sortedKeys(m reflect.Value) []reflect.Value {
	ks := m.MapKeys()
	names := make([]string, len(ks))
	idx := make([]int, len(ks))
	for i, k := range ks {
		names[i] = vh.Canon(k.Interface())
		idx[i] = i
	}
	sort.SliceStable(idx, func(a, b int) bool { return names[idx[a]] < names[idx[b]] })
	out := make([]reflect.Value, len(ks))
	for i, j := range idx {
		out[i] = ks[j]
	}
	return out
}

// perturb returns a deep copy of v with the SAME shape (map keys, pointer allocation, mostly the same lengths) and
// different leaves: a destination whose existing entries are hit by the stream's keys (merge paths).
func perturb(r *vh.Rng, v reflect.Value) reflect.Value {
	t := v.Type()
	out := reflect.New(t).Elem()
	if t == vh.TimeType {
		out.Set(v)
		return out
	}
	switch t.Kind() {
	case reflect.Bool:
		out.SetBool(!v.Bool())
	case reflect.Int, reflect.Int8, reflect.Int16, reflect.Int32, reflect.Int64:
		out.SetInt(v.Int() ^ 1)
	case reflect.Uint, reflect.Uint8, reflect.Uint16, reflect.Uint32, reflect.Uint64, reflect.Uintptr:
		out.SetUint(v.Uint() ^ 1)
	case reflect.Float32, reflect.Float64:
		out.SetFloat(1.5)
	case reflect.String:
		out.SetString(v.String() + "x")
	case reflect.Slice:
		if v.IsNil() {
			if r.Chance(1, 2) {
				out.Set(reflect.MakeSlice(t, 1, 2))
			}
			return out
		}
		n := v.Len()
		if n > 0 && r.Chance(1, 3) {
			n--
		}
		sl := reflect.MakeSlice(t, n, n+r.Intn(3))
		for i := 0; i < n; i++ {
			sl.Index(i).Set(perturb(r, v.Index(i)))
		}
		out.Set(sl)
	case reflect.Array:
		for i := 0; i < t.Len(); i++ {
			out.Index(i).Set(perturb(r, v.Index(i)))
		}
	case reflect.Map:
		if v.IsNil() {
			if r.Chance(1, 2) {
				out.Set(reflect.MakeMap(t))
			}
			return out
		}
		m := reflect.MakeMapWithSize(t, v.Len())
		for _, k := range sortedKeys(v) {
			if r.Chance(1, 5) {
				continue
			}
			m.SetMapIndex(k, perturb(r, v.MapIndex(k)))
		}
		out.Set(m)
	case reflect.Ptr:
		if v.IsNil() {
			if r.Chance(1, 2) {
				out.Set(reflect.New(t.Elem()))
			}
			return out
		}
		p := reflect.New(t.Elem())
		p.Elem().Set(perturb(r, v.Elem()))
		out.Set(p)
	case reflect.Struct:
		for i := 0; i < t.NumField(); i++ {
			if t.Field(i).PkgPath == "" {
				out.Field(i).Set(perturb(r, v.Field(i)))
			}
		}
	}
	return out
}

type result struct {
	err  bool
	data []byte
	n    int
}

// guarded runs f with a deadline; a hang is reported as a distinct outcome.
func guarded(f func() result) (res result) {
	ch := make(chan result, 1)
	go func() {
		defer func() {
			if x := recover(); x != nil {
				ch <- result{err: true, data: []byte("PANIC")}
			}
		}()
		ch <- f()
	}()
	select {
	case res = <-ch:
		return
	case <-time.After(5 * time.Second):
		return result{err: true, data: []byte("HANG")}
	}
}

var truncLimit = 600

var debug bool

// dbg prints replay detail (inputs, error texts) to stderr in -only mode; never part of the compared line.
func dbg(f string, a ...interface{}) {
	if debug {
		fmt.Fprintf(os.Stderr, f+"\n", a...)
	}
}

func trunc(b []byte) string {
	if len(b) > truncLimit {
		return fmt.Sprintf("%x…(%d)", b[:600], len(b))
	}
	return fmt.Sprintf("%x", b)
}

func truncs(b []byte) string {
	s := strings.ReplaceAll(string(b), "|", "¦")
	if len(s) > truncLimit+300 {
		return fmt.Sprintf("%s…(%d)", s[:truncLimit+300], len(s))
	}
	return s
}

// narrowType maps a type to the same shape with narrower numeric leaves.
func narrowType(t reflect.Type) reflect.Type {
	if t == vh.TimeType {
		return t
	}
	switch t.Kind() {
	case reflect.Float64:
		return reflect.TypeOf(float32(0))
	case reflect.Int, reflect.Int64:
		return reflect.TypeOf(int16(0))
	case reflect.Uint, reflect.Uint64:
		return reflect.TypeOf(uint8(0))
	case reflect.Slice:
		if e := narrowType(t.Elem()); e != t.Elem() {
			return reflect.SliceOf(e)
		}
	case reflect.Array:
		if e := narrowType(t.Elem()); e != t.Elem() {
			return reflect.ArrayOf(t.Len(), e)
		}
	case reflect.Ptr:
		if e := narrowType(t.Elem()); e != t.Elem() {
			return reflect.PointerTo(e)
		}
	case reflect.Map:
		k, e := narrowType(t.Key()), narrowType(t.Elem())
		if k != t.Key() || e != t.Elem() {
			return reflect.MapOf(k, e)
		}
	case reflect.Struct:
		changed := false
		fs := make([]reflect.StructField, t.NumField())
		for i := range fs {
			fs[i] = t.Field(i)
			fs[i].Offset = 0
			fs[i].Index = nil
			if e := narrowType(fs[i].Type); e != fs[i].Type {
				fs[i].Type = e
				changed = true
			}
		}
		if changed {
			return reflect.StructOf(fs)
		}
	}
	return t
}

// arrayType maps a type to the same shape with every non-byte slice replaced by an array of length 3.
func arrayType(t reflect.Type) reflect.Type {
	if t == vh.TimeType {
		return t
	}
	switch t.Kind() {
	case reflect.Slice:
		if t.Elem().Kind() == reflect.Uint8 {
			return t
		}
		return reflect.ArrayOf(3, arrayType(t.Elem()))
	case reflect.Array:
		if e := arrayType(t.Elem()); e != t.Elem() {
			return reflect.ArrayOf(t.Len(), e)
		}
	case reflect.Ptr:
		if e := arrayType(t.Elem()); e != t.Elem() {
			return reflect.PointerTo(e)
		}
	case reflect.Map:
		if e := arrayType(t.Elem()); e != t.Elem() {
			return reflect.MapOf(t.Key(), e)
		}
	case reflect.Struct:
		changed := false
		fs := make([]reflect.StructField, t.NumField())
		for i := range fs {
			fs[i] = t.Field(i)
			fs[i].Offset = 0
			fs[i].Index = nil
			if e := arrayType(fs[i].Type); e != fs[i].Type {
				fs[i].Type = e
				changed = true
			}
		}
		if changed {
			return reflect.StructOf(fs)
		}
	}
	return t
}

// caseIn is one case of the stream: everything observe needs.
type caseIn struct {
	i       int
	r       *vh.Rng
	format  string
	o       vh.Opts
	t       reflect.Type
	v       reflect.Value
	selfRef bool
	typ     string // prefix of the type column (names the stream for the deterministic ones)
}

// observe runs every observation of one case and returns its digest line and the canonical encoding.
func observe(c caseIn) (string, []byte) {
	i, r, format, o, t, v, selfRef := c.i, c.r, c.format, c.o, c.t, c.v, c.selfRef
	h := newHandle(format, o)
	line := fmt.Sprintf("%d|%s|%s|%s", i, format, o.String(), c.typ+t.String())
	var enc []byte
	e1 := guarded(func() result {
		var b []byte
		arg := v.Interface()
		if selfRef {
			arg = v.Addr().Interface() // by pointer: the copy made by Interface() would not contain its own address
		}
		err := codec.NewEncoderBytes(&b, h).Encode(arg)
		return result{err != nil, b, 0}
	})
	enc = e1.data
	line += fmt.Sprintf("|enc:%v:%s", e1.err, trunc(enc))
	// results are rendered by the harness's own deterministic printer (never re-encoded:
	// re-encoding would mix in encoder behaviour and map iteration order)
	reenc := func(x interface{}) []byte { return []byte(vh.Canon(x)) }
	if !e1.err {
		// typed decode
		d1 := guarded(func() result {
			p := reflect.New(t)
			d := codec.NewDecoderBytes(enc, h)
			err := d.Decode(p.Interface())
			if err != nil {
				return result{true, nil, d.NumBytesRead()}
			}
			return result{false, reenc(p.Elem().Interface()), d.NumBytesRead()}
		})
		line += fmt.Sprintf("|dec:%v:%d:%s", d1.err, d1.n, truncs(d1.data))
		// decode into a PRE-POPULATED destination of the same type (merge semantics: existing
		// elements, capacity smaller than the stream length, allocated pointers, map entries)
		pre := vh.RandValue(r.Fork(), t, vh.ValOpts{BigLens: false, NoNaN: format == "json", NoInf: format == "json", MaxLen: 3})
		dpre := guarded(func() result {
			p := reflect.New(t)
			p.Elem().Set(pre)
			d := codec.NewDecoderBytes(enc, h)
			err := d.Decode(p.Interface())
			if err != nil {
				dbg("pre: destination %s error %v", vh.Canon(pre.Interface()), err)
				return result{true, nil, d.NumBytesRead()}
			}
			return result{false, reenc(p.Elem().Interface()), d.NumBytesRead()}
		})
		line += fmt.Sprintf("|pre:%v:%d:%s", dpre.err, dpre.n, truncs(dpre.data))
		// decode into a destination of the SAME SHAPE as the encoded value (same map keys, allocated pointers,
		// nearly the same lengths) with other leaves: every key of the stream hits an existing entry
		pre2 := perturb(r.Fork(), v)
		dpre2 := guarded(func() result {
			p := reflect.New(t)
			p.Elem().Set(pre2)
			d := codec.NewDecoderBytes(enc, h)
			err := d.Decode(p.Interface())
			if err != nil {
				dbg("pre2: destination %s error %v", vh.Canon(pre2.Interface()), err)
				return result{true, nil, d.NumBytesRead()}
			}
			return result{false, reenc(p.Elem().Interface()), d.NumBytesRead()}
		})
		line += fmt.Sprintf("|pre2:%v:%d:%s", dpre2.err, dpre2.n, truncs(dpre2.data))
		// decode into an interface{} that HOLDS such a destination by value (not a pointer): slices held there
		// cannot be set or expanded, structs and arrays are not addressable, maps are decoded in place
		dipre := guarded(func() result {
			var x interface{} = perturb(r.Fork(), v).Interface()
			d := codec.NewDecoderBytes(enc, h)
			err := d.Decode(&x)
			if err != nil {
				dbg("ipre: error %v", err)
				return result{true, nil, d.NumBytesRead()}
			}
			return result{false, reenc(x), d.NumBytesRead()}
		})
		line += fmt.Sprintf("|ipre:%v:%d:%s", dipre.err, dipre.n, truncs(dipre.data))
		// decode into the NARROWED type (float64->float32, int/int64->int16, uint/uint64->uint8, same shape):
		// overflow detection and rounding must not depend on the build variant
		if nt := narrowType(t); nt != t {
			dn := guarded(func() result {
				p := reflect.New(nt)
				d := codec.NewDecoderBytes(enc, h)
				err := d.Decode(p.Interface())
				if err != nil {
					return result{true, nil, 0}
				}
				return result{false, reenc(p.Elem().Interface()), d.NumBytesRead()}
			})
			line += fmt.Sprintf("|narrow:%v:%d:%s", dn.err, dn.n, truncs(dn.data))
		}
		// decode into the ARRAY-SHAPED type (every []E becomes [3]E): streams shorter than the array leave a
		// tail that must be zero, longer ones must be handled identically, in every variant
		if at := arrayType(t); at != t {
			da := guarded(func() result {
				p := reflect.New(at)
				d := codec.NewDecoderBytes(enc, h)
				err := d.Decode(p.Interface())
				if err != nil {
					return result{true, nil, 0}
				}
				return result{false, reenc(p.Elem().Interface()), d.NumBytesRead()}
			})
			line += fmt.Sprintf("|arr:%v:%d:%s", da.err, da.n, truncs(da.data))
		}
		// decode into the same struct WITHOUT its last field: the stream then names (or, with StructToArray, carries)
		// an entry the destination has no field for - skipped, or an error under ErrorIfNoField, in every variant
		if t.Kind() == reflect.Struct && t.NumField() >= 2 {
			fs := make([]reflect.StructField, t.NumField()-1)
			for k := range fs {
				fs[k] = t.Field(k)
				fs[k].Offset = 0
				fs[k].Index = nil
			}
			dt := reflect.StructOf(fs)
			dd := guarded(func() result {
				p := reflect.New(dt)
				d := codec.NewDecoderBytes(enc, h)
				err := d.Decode(p.Interface())
				if err != nil {
					dbg("drop: error %v", err)
					return result{true, nil, 0}
				}
				return result{false, reenc(p.Elem().Interface()), d.NumBytesRead()}
			})
			line += fmt.Sprintf("|drop:%v:%d:%s", dd.err, dd.n, truncs(dd.data))
		}
		// the encoding embedded as codec.Raw (alone, and as slice elements): written as is under the Raw option, an
		// error without it; read back as the bytes of one whole value
		{
			type rawT struct {
				A codec.Raw
				L []codec.Raw
			}
			dr := guarded(func() result {
				var b []byte
				if err := codec.NewEncoderBytes(&b, h).Encode(rawT{A: enc, L: []codec.Raw{enc, enc}}); err != nil {
					return result{true, nil, 0}
				}
				var back rawT
				d := codec.NewDecoderBytes(b, h)
				if err := d.Decode(&back); err != nil {
					return result{true, b, -1}
				}
				return result{false, append(append([]byte(nil), b...), []byte(fmt.Sprintf("=>%x,%d", back.A, len(back.L)))...), d.NumBytesRead()}
			})
			line += fmt.Sprintf("|raw:%v:%d:%s", dr.err, dr.n, trunc(dr.data))
		}
		// schema-less decode
		d2 := guarded(func() result {
			var x interface{}
			d := codec.NewDecoderBytes(enc, h)
			err := d.Decode(&x)
			if err != nil {
				return result{true, nil, d.NumBytesRead()}
			}
			return result{false, reenc(x), d.NumBytesRead()}
		})
		line += fmt.Sprintf("|naked:%v:%d:%s", d2.err, d2.n, truncs(d2.data))
		// io transport
		d3 := guarded(func() result {
			p := reflect.New(t)
			d := codec.NewDecoder(bytes.NewReader(enc), h)
			err := d.Decode(p.Interface())
			if err != nil {
				return result{true, nil, d.NumBytesRead()}
			}
			return result{false, reenc(p.Elem().Interface()), d.NumBytesRead()}
		})
		line += fmt.Sprintf("|io:%v:%d:%s", d3.err, d3.n, truncs(d3.data))
		// damaged inputs: truncation and one flipped byte, typed and schema-less
		if len(enc) > 0 {
			for k := 0; k < 5; k++ {
				bad := append([]byte(nil), enc...)
				switch k {
				case 0:
					bad = bad[:r.Intn(len(bad))]
				case 1:
					bad[r.Intn(len(bad))] ^= byte(1 << uint(r.Intn(8)))
				case 2:
					bad[r.Intn(len(bad))] = byte(r.U64())
				case 3: // a marker byte (nil, undefined, break, bool, empty/indefinite container) in place of one byte
					bad[r.Intn(len(bad))] = markers[r.Intn(len(markers))]
				default: // the whole input is one marker byte
					bad = []byte{markers[r.Intn(len(markers))]}
				}
				d4 := guarded(func() result {
					p := reflect.New(t)
					d := codec.NewDecoderBytes(bad, h)
					err := d.Decode(p.Interface())
					dbg("bad%d: input %x typed error %v", k, bad, err)
					if err != nil {
						return result{true, nil, 0}
					}
					return result{false, reenc(p.Elem().Interface()), d.NumBytesRead()}
				})
				d5 := guarded(func() result {
					var x interface{}
					d := codec.NewDecoderBytes(bad, h)
					err := d.Decode(&x)
					if err != nil {
						return result{true, nil, 0}
					}
					return result{false, reenc(x), d.NumBytesRead()}
				})
				line += fmt.Sprintf("|bad%d:%v:%d:%s/%v:%d:%s", k, d4.err, d4.n, truncs(d4.data), d5.err, d5.n, truncs(d5.data))
			}
		}
	}
	// every one-byte input into this type: the successes (nil, undefined, empty containers, small scalars ...)
	// must be the same set with the same results in every variant
	{
		var sb strings.Builder
		for b := 0; b < 256; b++ {
			in := []byte{byte(b)}
			d6 := guarded(func() result {
				p := reflect.New(t)
				d := codec.NewDecoderBytes(in, h)
				if err := d.Decode(p.Interface()); err != nil {
					return result{true, nil, 0}
				}
				return result{false, reenc(p.Elem().Interface()), d.NumBytesRead()}
			})
			if !d6.err || len(d6.data) > 0 {
				fmt.Fprintf(&sb, "%02x=%v,%d,%s;", b, d6.err, d6.n, truncs(d6.data))
			}
		}
		line += "|one:" + sb.String()
	}
	return line, enc
}

func main() {
	n := flag.Int("n", 1500, "cases of the random stream (the deterministic streams follow, indices n, n+1, ...)")
	out := flag.String("out", "", "digest file")
	casesDir := flag.String("cases", "", "unused (no model cases in this command)")
	only := flag.Int("only", -1, "run only this case index and print it untruncated to stdout")
	flag.Parse()
	_ = casesDir
	seed := vh.SeedFromEnv()
	r := vh.NewRng(seed)
	sum := vh.NewSummary("three streams, lines diffed across build-tag sets by the driver. (1) seeded stream of (format, enc+dec options, random static type incl. tagged structs, value, damaged inputs); per case: canonical encode, typed decode + re-encode, schema-less decode + re-encode, pre-populated / same-shape / interface-held / narrowed / array-shaped / one-field-short destinations, the encoding as codec.Raw, decode of truncated and bit-flipped input, NumBytesRead; every boolean field of DecodeOptions, EncodeOptions, BasicHandle and the format's handle (found by reflection) is drawn. (2) corner option vectors per format (none, each boolean alone, all but each one, all, all decode, all encode, all+MaxInitLen=1; Canonical off on single-entry maps) on a fixed struct of fast-path and reflection-route fields + one random type, same observations. (3) stream array/map longer, equal, shorter than a destination that cannot grow ([N]E by pointer and as struct field, []E by value) and one that can, x format (cbor with and without IndefiniteLength) x ErrorIfNoArrayExpand x 21 element types with and without a generated fast-path. distinct by (format, kind, depth, options) / (format, vector) / (format, options, element type); distribution opt.X = cases run with option X on")
	var w *bufio.Writer
	if *out != "" {
		f, err := os.Create(*out)
		if err != nil {
			panic(err)
		}
		defer f.Close()
		w = bufio.NewWriter(f)
		defer w.Flush()
	}
	emit := func(i int, line string) {
		if *only >= 0 {
			fmt.Println(line)
		}
		if w != nil {
			w.WriteString(line)
			w.WriteByte(0x0a)
			w.Flush()
		}
	}
	skip := func(i int) bool {
		if *only >= 0 && i != *only {
			return true
		}
		if *only >= 0 {
			truncLimit = 1 << 30
			debug = true
		}
		return false
	}
	r0 := r
	for i := 0; i < *n; i++ {
		r := r0.Fork() // per-case stream: what one case draws never depends on another case's outcome
		if skip(i) {
			continue
		}
		format := vh.Formats[r.Intn(len(vh.Formats))]
		o := vh.RandEncOpts(r, format)
		o["Canonical"] = true
		decOpts(r, o)
		// the booleans the two generators above never draw, from a generator of their own
		extraOpts(vh.NewRng(seed*0x9E3779B1+uint64(i)*0x85EBCA77+0xC05), o, format)
		to := vh.TypeOpts{MaxDepth: 3, Tags: true}
		if format == "json" {
			to.StringKeys = r.Chance(2, 3)
			if !to.StringKeys {
				o["MapKeyAsString"] = true
			}
		}
		t := vh.RandType(r, to, 0)
		if i%83 == 7 {
			// a struct whose later fields sit beyond byte offset 64K (field offsets are kept in fixed-width integers)
			t = reflect.StructOf([]reflect.StructField{
				{Name: "Pad", Type: reflect.ArrayOf(66000, reflect.TypeOf(uint8(0)))},
				{Name: "N", Type: reflect.TypeOf(int32(0))},
				{Name: "S", Type: reflect.TypeOf(""), Tag: `codec:"s,omitempty"`},
				{Name: "L", Type: reflect.TypeOf([]int16(nil))},
				{Name: "V", Type: t},
			})
		}
		selfRef := i%83 == 11
		if selfRef {
			// an ACYCLIC value holding a pointer to its own first field (same address, other type) under
			// CheckCircularRef: the reference stack must compare type AND address in every build
			inner := reflect.StructOf([]reflect.StructField{{Name: "A", Type: reflect.TypeOf(int64(0))}, {Name: "B", Type: reflect.TypeOf("")}})
			t = reflect.StructOf([]reflect.StructField{{Name: "First", Type: inner}, {Name: "Ref", Type: reflect.PointerTo(inner)}, {Name: "V", Type: t}})
			o["CheckCircularRef"] = true
		}
		v := vh.RandValue(r, t, vh.ValOpts{BigLens: true, NoNaN: format == "json", NoInf: format == "json", MaxLen: 5})
		if selfRef {
			v.Field(1).Set(v.Field(0).Addr())
		}
		if i%83 == 7 { // zero padding (but for its last byte): a mis-addressed field then reads zeros, not wild headers
			pad := v.Field(0)
			pad.Set(reflect.Zero(pad.Type()))
			pad.Index(pad.Len() - 1).SetUint(1)
		}
		line, enc := observe(caseIn{i: i, r: r, format: format, o: o, t: t, v: v, selfRef: selfRef})
		emit(i, line)
		key := fmt.Sprintf("%s/%s/d%d/%s", format, vh.DescribeKind(t), vh.TypeDepth(t), o.String())
		if len(enc) <= 1 {
			key = ""
		}
		sum.Count("c05."+format, key)
		countOpts(sum, o)
		if i < 3 {
			sum.Sample(line)
		}
	}
	idx := *n
	// ---- corner option vectors (seed-independent vectors; the random part of the type and the values are seeded) ----
	rc := vh.NewRng(seed ^ 0xC05C0)
	for _, format := range vh.Formats {
		for _, vec := range cornerVectors(format) {
			i := idx
			idx++
			r := rc.Fork()
			if skip(i) {
				continue
			}
			c := cornerCase(i, r, format, vec)
			line, enc := observe(c)
			emit(i, line)
			key := "corner/" + format + "/" + vec.name
			if len(enc) <= 1 {
				key = ""
			}
			sum.Count("c05.corner."+format, key)
			countOpts(sum, c.o)
			if vec.name == "all" && format == "cbor" {
				sum.Sample(truncSample(line))
			}
		}
	}
	// ---- streams longer than a destination that cannot grow ----
	rl := vh.NewRng(seed ^ 0xC05A7)
	for k, c := range longConfigs() {
		i := idx
		idx++
		r := rl.Fork()
		if skip(i) {
			continue
		}
		line := longCase(i, r, c)
		emit(i, line)
		sum.Count(longBucket(c), "long/"+c.format+"/"+c.o.String()+"/"+c.elem.name)
		countOpts(sum, c.o)
		if k == 9 {
			sum.Sample(truncSample(line))
		}
	}
	sum.Print()
}

func truncSample(s string) string {
	if len(s) > 1500 {
		return s[:1500] + "…"
	}
	return s
}

// Option vectors and the deterministic streams of cmd/c05.
//
// The boolean options are not listed by hand: they are read by reflection from the library's own
// DecodeOptions, EncodeOptions, BasicHandle and <Format>Handle types, so that every one of them is
// switched on in some vector (alone, and as the only one off) and is drawn in the random stream.
package main

import (
	"bytes"
	"fmt"
	"reflect"
	"strings"
	"time"

	"verifharness/vh"

	"github.com/ugorji/go/codec"
)

// boolFields returns the exported, non-embedded bool fields of a struct type, in declaration order.
func boolFields(t reflect.Type) []string {
	var out []string
	for i := 0; i < t.NumField(); i++ {
		f := t.Field(i)
		if f.PkgPath == "" && !f.Anonymous && f.Type.Kind() == reflect.Bool {
			out = append(out, f.Name)
		}
	}
	return out
}

var (
	decBools   = boolFields(reflect.TypeOf((*codec.DecodeOptions)(nil)).Elem())
	encBools   = boolFields(reflect.TypeOf((*codec.EncodeOptions)(nil)).Elem())
	basicBools = boolFields(reflect.TypeOf((*codec.BasicHandle)(nil)).Elem())
)

// handleBools are the bool fields of the format's own handle struct (IndefiniteLength, MapKeyAsString, ...).
func handleBools(format string) []string {
	return boolFields(reflect.TypeOf(vh.NewHandle(format, vh.Opts{})).Elem())
}

// allBools is every boolean option the format's handle has, Canonical excepted (it decides whether the
// encoded bytes of a map with two entries are a function of the value at all, see cornerVectors).
func allBools(format string) []string {
	var out []string
	for _, l := range [][]string{decBools, encBools, basicBools, handleBools(format)} {
		for _, n := range l {
			if n != "Canonical" {
				out = append(out, n)
			}
		}
	}
	return out
}

// newHandle is vh.NewHandle plus every boolean of the vector that is a bool field of the handle
// (reached by name through the embedded option structs): no boolean option is out of reach.
func newHandle(format string, o vh.Opts) codec.Handle {
	h := vh.NewHandle(format, o)
	hv := reflect.ValueOf(h).Elem()
	for k, x := range o {
		b, ok := x.(bool)
		if !ok {
			continue
		}
		if f := hv.FieldByName(k); f.IsValid() && f.Kind() == reflect.Bool && f.CanSet() {
			f.SetBool(b)
		}
	}
	return h
}

// drawnByBase are the booleans RandEncOpts / decOpts already draw; the others are drawn by extraOpts from a
// generator of their own (so that what the base stream draws for a case does not move).
var drawnByBase = map[string]bool{
	"StructToArray": true, "Canonical": true, "OptimumSize": true, "StringToRaw": true,
	"IndefiniteLength": true, "TimeRFC3339": true, "NoFixedNum": true, "WriteExt": true, "PositiveIntUnsigned": true,
	"HTMLCharsAsIs": true, "MapKeyAsString": true, "TermWhitespace": true,
	"SignedInteger": true, "RawToString": true, "ZeroCopy": true, "InternString": true, "PreferArrayOverSlice": true,
	"MapValueReset": true, "SliceElementReset": true, "InterfaceReset": true, "ErrorIfNoField": true,
	"RecursiveEmptyCheck": true, "NilCollectionToZeroLength": true,
}

func extraOpts(rx *vh.Rng, o vh.Opts, format string) {
	for _, n := range allBools(format) {
		if drawnByBase[n] {
			continue
		}
		if rx.Chance(1, 6) {
			o[n] = true
		}
	}
}

// countOpts feeds the evidence distribution: how many cases ran with each option switched on.
func countOpts(sum *vh.Summary, o vh.Opts) {
	for k, x := range o {
		switch y := x.(type) {
		case bool:
			if y {
				sum.Dist["opt."+k]++
			}
		default:
			sum.Dist["opt."+k+"(non-bool)"]++
		}
	}
}

// ---- corner vectors ----

type vector struct {
	name         string
	o            vh.Opts
	nonCanonical bool // Canonical off: the value is drawn with containers of at most one element
}

func vecOf(names []string, except string) vh.Opts {
	o := vh.Opts{}
	for _, n := range names {
		if n != except {
			o[n] = true
		}
	}
	return o
}

// cornerVectors: for the format, no option at all; each boolean alone; all but each one; all; all decode options;
// all encode options; all with MaxInitLen 1. Canonical is on in every vector but the two "noncanonical" ones,
// whose values hold at most one entry per map (so that the encoded bytes are still a function of the value).
func cornerVectors(format string) []vector {
	all := allBools(format)
	var out []vector
	out = append(out, vector{"none", vh.Opts{"Canonical": true}, false})
	out = append(out, vector{"none-noncanonical", vh.Opts{}, true})
	for _, b := range all {
		o := vh.Opts{b: true, "Canonical": true}
		out = append(out, vector{"only:" + b, o, false})
	}
	for _, b := range all {
		o := vecOf(all, b)
		o["Canonical"] = true
		out = append(out, vector{"allbut:" + b, o, false})
	}
	o := vecOf(all, "")
	o["Canonical"] = true
	out = append(out, vector{"all", o, false})
	out = append(out, vector{"all-noncanonical", vecOf(all, ""), true})
	o = vecOf(decBools, "")
	o["Canonical"] = true
	out = append(out, vector{"alldec", o, false})
	o = vecOf(encBools, "")
	o["Canonical"] = true
	out = append(out, vector{"allenc", o, false})
	o = vecOf(all, "")
	o["Canonical"] = true
	o["MaxInitLen"] = 1
	out = append(out, vector{"all+MaxInitLen=1", o, false})
	return out
}

type cornerSub struct {
	X int16 `codec:"x,omitempty"`
	Y string
	Z []uint16
}

type cornerCmp struct {
	X int16
	B bool
}

// cornerFixed holds one field per decode/encode route the options steer: slices, arrays and maps whose element
// type has a generated fast-path next to ones that go through reflection, interface{} slots, pointers, bytes,
// a nested struct, time, and omitempty fields of the kinds on which the safe and the unsafe emptiness test agree
// (C05_isempty_agree; the kinds on which they do not - finding F05-1 - come with the random field V, whose tags
// the type column shows).
type cornerFixed struct {
	I64s  []int64
	I16s  []int16
	Strs  []string
	Ifs   []interface{}
	Bs    []byte
	BBs   [][]byte
	F64s  []float64
	Subs  []cornerSub
	A64   [2]int64
	A16   [2]int16
	AStr  [2]string
	AIf   [2]interface{}
	MSI   map[string]int64
	MSIf  map[string]interface{}
	MS16  map[string]int16
	MSSs  map[string][]string
	MSSub map[string]*cornerSub
	P     *int64
	PS    *cornerSub
	PSl   *[]string
	If    interface{}
	Str   string `codec:"s"`
	Sub   cornerSub
	OI    int64     `codec:",omitempty"`
	OB    bool      `codec:"ob,omitempty"`
	OU    uint8     `codec:",omitempty"`
	OP    *int64    `codec:",omitempty"`
	OC    cornerCmp `codec:"oc,omitempty"`
	T     time.Time
	F32   float32
	U8    uint8
	U64   uint64
	B     bool
}

// fillIfaces gives every interface{} slot of v a value of a schema-less kind (or leaves it nil).
func fillIfaces(r *vh.Rng, v reflect.Value, depth int) {
	switch v.Kind() {
	case reflect.Interface:
		if v.NumMethod() != 0 || !v.CanSet() {
			return
		}
		var x interface{}
		switch k := r.Intn(10); {
		case depth > 2 || k < 4:
			x = []interface{}{int64(-7), uint64(300), 1.5, "s€", true, []byte{1, 2}}[r.Intn(6)]
		case k == 4:
			x = nil
		case k < 7:
			n := r.Intn(3)
			s := make([]interface{}, n)
			for i := range s {
				fillIfaces(r, reflect.ValueOf(&s[i]).Elem(), depth+1)
			}
			x = s
		case k < 9:
			m := map[string]interface{}{}
			if r.Bool() {
				var e interface{}
				fillIfaces(r, reflect.ValueOf(&e).Elem(), depth+1)
				m["k"] = e
			}
			x = m
		default:
			x = []string{"a", "b"}[:r.Intn(3)]
		}
		if x != nil {
			v.Set(reflect.ValueOf(x))
		}
	case reflect.Struct:
		if v.Type() == vh.TimeType {
			return
		}
		for i := 0; i < v.NumField(); i++ {
			if v.Type().Field(i).PkgPath == "" {
				fillIfaces(r, v.Field(i), depth+1)
			}
		}
	case reflect.Slice, reflect.Array:
		if v.Type().Elem().Kind() == reflect.Uint8 {
			return
		}
		for i := 0; i < v.Len(); i++ {
			fillIfaces(r, v.Index(i), depth+1)
		}
	case reflect.Ptr:
		if !v.IsNil() {
			fillIfaces(r, v.Elem(), depth+1)
		}
	case reflect.Map:
		if v.IsNil() {
			return
		}
		for _, k := range sortedKeys(v) {
			e := reflect.New(v.Type().Elem()).Elem()
			e.Set(v.MapIndex(k))
			fillIfaces(r, e, depth+1)
			v.SetMapIndex(k, e)
		}
	}
}

// cornerCase builds case k of the corner stream: vector k/5-th of format k%5 on a struct of the fixed fields and
// one random type.
func cornerCase(i int, r *vh.Rng, format string, vec vector) caseIn {
	o := vh.Opts{}
	for k, x := range vec.o {
		o[k] = x
	}
	to := vh.TypeOpts{MaxDepth: 2, Tags: true, StringKeys: format == "json"}
	t := reflect.StructOf([]reflect.StructField{
		{Name: "Fixed", Type: reflect.TypeOf(cornerFixed{})},
		{Name: "V", Type: vh.RandType(r, to, 0)},
	})
	vo := vh.ValOpts{NoNaN: format == "json", NoInf: format == "json", MaxLen: 4}
	if vec.nonCanonical {
		vo.MaxLen = 1
	}
	v := vh.RandValue(r, t, vo)
	fillIfaces(r, v, 0)
	return caseIn{i: i, r: r, format: format, o: o, t: t, v: v, typ: "corner:" + vec.name + ":"}
}

// ---- stream longer (or shorter) than a destination that cannot grow ----

type longElem struct {
	name string
	t    reflect.Type
	fast bool // the element type has a generated fast-path for []T (fastpath.generated list of the pinned tree)
}

type longStruct struct {
	A int64
	B string
}

var longElems = []longElem{
	{"interface{}", vh.IfaceType, true},
	{"string", reflect.TypeOf(""), true},
	{"[]byte", vh.BytesType, true},
	{"float32", reflect.TypeOf(float32(0)), true},
	{"float64", reflect.TypeOf(float64(0)), true},
	{"uint8", reflect.TypeOf(uint8(0)), true},
	{"uint64", reflect.TypeOf(uint64(0)), true},
	{"int", reflect.TypeOf(int(0)), true},
	{"int32", reflect.TypeOf(int32(0)), true},
	{"int64", reflect.TypeOf(int64(0)), true},
	{"bool", reflect.TypeOf(false), true},
	{"int8", reflect.TypeOf(int8(0)), false},
	{"int16", reflect.TypeOf(int16(0)), false},
	{"uint16", reflect.TypeOf(uint16(0)), false},
	{"uint32", reflect.TypeOf(uint32(0)), false},
	{"uint", reflect.TypeOf(uint(0)), false},
	{"struct", reflect.TypeOf(longStruct{}), false},
	{"*int64", reflect.TypeOf((*int64)(nil)), false},
	{"[2]int64", reflect.TypeOf([2]int64{}), false},
	{"[]int64", reflect.TypeOf([]int64(nil)), false},
	{"time.Time", vh.TimeType, false},
}

// longShapes are (destination length, stream length) pairs: longer by one and by several, equal, shorter, empty.
var longShapes = [][2]int{{0, 1}, {0, 3}, {1, 2}, {2, 3}, {2, 5}, {3, 4}, {2, 2}, {3, 1}, {2, 0}}

type longCfg struct {
	format string
	o      vh.Opts
	elem   longElem
}

// longConfigs: every format (cbor with and without IndefiniteLength: the stream then does not announce its
// length, as json never does) x ErrorIfNoArrayExpand off/on x element type.
func longConfigs() []longCfg {
	var out []longCfg
	for _, f := range vh.Formats {
		var bases []vh.Opts
		bases = append(bases, vh.Opts{"Canonical": true})
		if f == "cbor" {
			bases = append(bases, vh.Opts{"Canonical": true, "IndefiniteLength": true})
		}
		for _, b := range bases {
			for _, enae := range []bool{false, true} {
				for _, e := range longElems {
					o := vh.Opts{}
					for k, x := range b {
						o[k] = x
					}
					if enae {
						o["ErrorIfNoArrayExpand"] = true
					}
					out = append(out, longCfg{f, o, e})
				}
			}
		}
	}
	return out
}

func encodeWith(h codec.Handle, x interface{}) ([]byte, bool) {
	res := guarded(func() result {
		var b []byte
		err := codec.NewEncoderBytes(&b, h).Encode(x)
		return result{err != nil, b, 0}
	})
	return res.data, !res.err
}

// decodeInto decodes in into dst (a pointer, or a slice passed by value) and renders what *shown holds afterwards.
func decodeInto(h codec.Handle, in []byte, viaIO bool, dst interface{}, shown reflect.Value) string {
	res := guarded(func() result {
		var d *codec.Decoder
		if viaIO {
			d = codec.NewDecoder(bytes.NewReader(in), h)
		} else {
			d = codec.NewDecoderBytes(in, h)
		}
		if err := d.Decode(dst); err != nil {
			dbg("long: input %x into %T error %v", in, dst, err)
			return result{true, nil, 0}
		}
		return result{false, []byte(vh.Canon(shown.Interface())), d.NumBytesRead()}
	})
	return fmt.Sprintf("%v:%d:%s", res.err, res.n, truncs(res.data))
}

// longCase: for one (format, options, element type E) and every shape (n, l): a stream array of l elements (and,
// for comparable E, a stream map of 1 and 2 entries, which an array destination reads as 2 and 4 items) decoded into
// destinations of length n that cannot grow - *[n]E, a []E passed by value (cap n and cap n+2), [n]E as a struct
// field - and, as the control, into a *[]E of length n, which can. Every destination is pre-filled. With
// ErrorIfNoArrayExpand the too-long stream must be an error in every build, whether or not the stream announces
// its length; without it the excess must be skipped the same way.
func longCase(i int, r *vh.Rng, c longCfg) string {
	h := newHandle(c.format, c.o)
	E := c.elem.t
	vo := vh.ValOpts{NoNaN: true, NoInf: c.format == "json", MaxLen: 2, NoNilPtr: true}
	elemVal := func() reflect.Value {
		v := vh.RandValue(r, E, vo)
		fillIfaces(r, v, 2)
		return v
	}
	line := fmt.Sprintf("%d|%s|%s|long:%s(fastpath=%v)", i, c.format, c.o.String(), c.elem.name, c.elem.fast)
	sliceT := reflect.SliceOf(E)
	fieldT := func(n int, arr bool) reflect.Type {
		ft := sliceT
		if arr {
			ft = reflect.ArrayOf(n, E)
		}
		return reflect.StructOf([]reflect.StructField{{Name: "A", Type: ft}, {Name: "Z", Type: reflect.TypeOf(int64(0))}})
	}
	prefilled := func(n, capn int) reflect.Value {
		s := reflect.MakeSlice(sliceT, n, capn)
		for j := 0; j < n; j++ {
			s.Index(j).Set(elemVal())
		}
		return s
	}
	into := func(tag string, n int, in []byte) {
		// *[n]E
		{
			p := reflect.New(reflect.ArrayOf(n, E))
			reflect.Copy(p.Elem(), prefilled(n, n))
			q := reflect.New(reflect.ArrayOf(n, E))
			q.Elem().Set(p.Elem())
			line += "|" + tag + ".pa:" + decodeInto(h, in, false, p.Interface(), p.Elem())
			line += "|" + tag + ".pa.io:" + decodeInto(h, in, true, q.Interface(), q.Elem())
		}
		// []E by value, no spare capacity / spare capacity
		{
			s := prefilled(n, n)
			line += "|" + tag + ".vs:" + decodeInto(h, in, false, s.Interface(), s)
			s = prefilled(n, n+2)
			line += "|" + tag + ".vc:" + decodeInto(h, in, false, s.Interface(), s.Slice(0, n+2))
		}
		// control: *[]E can grow
		{
			p := reflect.New(sliceT)
			p.Elem().Set(prefilled(n, n))
			line += "|" + tag + ".ps:" + decodeInto(h, in, false, p.Interface(), p.Elem())
		}
	}
	for _, sh := range longShapes {
		n, l := sh[0], sh[1]
		src := reflect.MakeSlice(sliceT, l, l)
		for j := 0; j < l; j++ {
			src.Index(j).Set(elemVal())
		}
		tag := fmt.Sprintf("d%ds%d", n, l)
		in, ok := encodeWith(h, src.Interface())
		line += fmt.Sprintf("|%s.enc:%v:%s", tag, !ok, trunc(in))
		if ok {
			into(tag, n, in)
		}
		if E.Kind() == reflect.Uint8 {
			// []uint8 is written as a byte string: the same numbers as a stream ARRAY reach the element loop
			wide := make([]uint16, l)
			for j := range wide {
				wide[j] = uint16(src.Index(j).Uint())
			}
			if in, ok := encodeWith(h, wide); ok {
				into(tag+"w", n, in)
			}
		}
		// the same inside a struct: {A: stream array, Z: 7} into struct{A [n]E; Z int64}
		sv := reflect.New(fieldT(0, false)).Elem()
		sv.Field(0).Set(src)
		sv.Field(1).SetInt(7)
		if in, ok := encodeWith(h, sv.Interface()); ok {
			p := reflect.New(fieldT(n, true))
			reflect.Copy(p.Elem().Field(0), prefilled(n, n))
			line += "|" + tag + ".sf:" + decodeInto(h, in, false, p.Interface(), p.Elem())
		}
	}
	if E.Comparable() && E.Kind() != reflect.Interface {
		for _, m := range []int{1, 2} {
			mv := reflect.MakeMap(reflect.MapOf(E, E))
			for tries := 0; mv.Len() < m && tries < 50; tries++ {
				mv.SetMapIndex(elemVal(), elemVal())
			}
			if mv.Len() != m {
				continue
			}
			in, ok := encodeWith(h, mv.Interface())
			for _, n := range []int{0, 1, 2, 3, 4} {
				tag := fmt.Sprintf("d%dm%d", n, m)
				line += fmt.Sprintf("|%s.enc:%v:%s", tag, !ok, trunc(in))
				if ok {
					into(tag, n, in)
				}
			}
		}
	}
	return line
}

// longBucket names, for the distribution, what a long-stream case covered.
func longBucket(c longCfg) string {
	var parts []string
	parts = append(parts, c.format)
	if c.format == "json" || c.o["IndefiniteLength"] == true {
		parts = append(parts, "no-length")
	} else {
		parts = append(parts, "announced-length")
	}
	if c.elem.fast {
		parts = append(parts, "fastpath-elem")
	} else {
		parts = append(parts, "reflection-elem")
	}
	if c.o["ErrorIfNoArrayExpand"] == true {
		parts = append(parts, "ErrorIfNoArrayExpand")
	}
	return "c05.long." + strings.Join(parts, ".")
}

// Streams of c06 about state that outlives one operation and is reachable from the
// RESULTS of operations or from later operations of other goroutines:
//
//	"reuse": goroutines sharing one Handle, each with its own Decoder and its own
//	         REUSED destination (a record with []byte / string / [][]byte /
//	         map[string][]byte / *[]byte fields, and a bare []byte), decode a
//	         sequence of messages whose byte-string lengths walk through the small
//	         lengths (nil, 0, 1, 0, 2, 1, 3, ...) so that every destination is
//	         shrunk to empty-but-non-nil and grown again by one, two, ... bytes.
//	         What a destination holds is compared with the sequential run of the
//	         same sequence AFTER all goroutines have finished the step (a barrier
//	         after every step, or only at the very end): a finished operation's
//	         result must not change because another goroutine decodes.  Anything the
//	         library hands out that is backed by package-level memory shows up here
//	         (and as a data race in the -race build of the same stream).
//	"embed": several Handles with different TypeInfos (the default one,
//	         NewTypeInfos([]string{"db","json"}), NewTypeInfos([]string{"codec","json"}))
//	         used by the same goroutines on fresh run-time struct types WITH EMBEDDING:
//	         every member of an embedding chain E0 < E1 < ... < S is used as a root
//	         type on every Handle before the struct embedding it is first seen.  The
//	         oracle does not depend on the library or on the process state: the field
//	         set an encoding must carry (and a decode must fill) is computed with
//	         reflect from Go's embedding rules and the Handle's tag keys.  Scratch
//	         state that leaks from one typeInfo load to the next (pooled loader
//	         scratch) shows up as missing or extra fields.
package main

import (
	"bytes"
	"fmt"
	"reflect"
	"runtime"
	"sort"
	"strings"
	"sync"
	"time"

	"verifharness/vh"

	"github.com/ugorji/go/codec"
)

// ---------- reuse ----------

type ruInner struct {
	B []byte
	T string
}

// ruRec is a record as an application pools and reuses across messages.
type ruRec struct {
	ID   int
	Data []byte
	Seq  int
	S    string
	L    [][]byte
	M    map[string][]byte
	P    *[]byte
	A    ruInner
	Tail int
}

// the walk through the small lengths; -1 = nil
var ruLens = []int{0, 1, 0, 2, 1, 0, 3, 1, -1, 1, 0, 1, 2, 0, 1, 4, 0}

func ruLen(g, step, slot int) int { return ruLens[(step+3*slot+g%3)%len(ruLens)] }

// ruBytes: content that identifies goroutine, step and slot (the first byte differs between any two of <= 64 goroutines)
func ruBytes(g, step, slot, n int) []byte {
	if n < 0 {
		return nil
	}
	b := make([]byte, n)
	for i := range b {
		b[i] = byte(1 + g + 67*i + 64*(step%3) + 29*slot)
	}
	return b
}

func ruMessage(g, step int) *ruRec {
	m := &ruRec{ID: g, Seq: step, Tail: g*1000 + step}
	m.Data = ruBytes(g, step, 0, ruLen(g, step, 0))
	m.S = string(ruBytes(g, step, 1, ruLen(g, step, 1)))
	m.L = [][]byte{ruBytes(g, step, 2, ruLen(g, step, 2)), ruBytes(g, step, 3, ruLen(g, step, 3))}
	m.M = map[string][]byte{"a": ruBytes(g, step, 4, ruLen(g, step, 4)), "b": ruBytes(g, step, 5, ruLen(g, step, 5))}
	if p := ruBytes(g, step, 6, ruLen(g, step, 6)); p != nil {
		m.P = &p
	}
	m.A = ruInner{B: ruBytes(g, step, 7, ruLen(g, step, 7)), T: string(ruBytes(g, step, 8, ruLen(g, step, 8)))}
	return m
}

// ruDest is what one goroutine owns and reuses for all its steps.
type ruDest struct {
	rec    ruRec
	direct []byte
	dec    *codec.Decoder
}

type barrier struct {
	mu         sync.Mutex
	c          *sync.Cond
	n, cnt, gn int
}

func newBarrier(n int) *barrier { b := &barrier{n: n}; b.c = sync.NewCond(&b.mu); return b }
func (b *barrier) wait() {
	b.mu.Lock()
	gn := b.gn
	b.cnt++
	if b.cnt == b.n {
		b.cnt, b.gn = 0, b.gn+1
		b.c.Broadcast()
	} else {
		for gn == b.gn {
			b.c.Wait()
		}
	}
	b.mu.Unlock()
}

// ruStep decodes the two messages of a step (the record, then a bare byte string) into the reused destinations.
func ruStep(h codec.Handle, d *ruDest, recMsg, dirMsg []byte, useIO, reuseDec bool) (errs string) {
	defer func() {
		if x := recover(); x != nil {
			errs = "panic: " + fmt.Sprint(x)
		}
	}()
	for k, in := range [][]byte{recMsg, dirMsg} {
		var dec *codec.Decoder
		switch {
		case reuseDec && d.dec != nil && useIO:
			dec = d.dec
			dec.Reset(bytes.NewReader(in))
		case reuseDec && d.dec != nil:
			dec = d.dec
			dec.ResetBytes(in)
		case useIO:
			dec = codec.NewDecoder(bytes.NewReader(in), h)
		default:
			dec = codec.NewDecoderBytes(in, h)
		}
		if reuseDec {
			d.dec = dec
		}
		var err error
		if k == 0 {
			err = dec.Decode(&d.rec)
		} else {
			err = dec.Decode(&d.direct)
		}
		if err != nil {
			errs += fmt.Sprintf("err%d ", k)
		}
	}
	return
}

func ruRender(d *ruDest, errs string) string {
	return vh.Canon(&d.rec) + " | direct=" + vh.Canon(d.direct) + " | " + errs
}

func ruCopy2(xs [][][]byte) [][][]byte {
	out := make([][][]byte, len(xs))
	for i := range xs {
		out[i] = make([][]byte, len(xs[i]))
		for j := range xs[i] {
			out[i][j] = append([]byte{}, xs[i][j]...)
		}
	}
	return out
}

// ruFirstDiff names the first field of the rendering that differs (a stable root-cause class).
func ruFirstDiff(a, b string) string {
	n := len(a)
	if len(b) < n {
		n = len(b)
	}
	i := 0
	for i < n && a[i] == b[i] {
		i++
	}
	// the last field name before the difference
	s := a[:i]
	best, at := "?", -1
	for _, f := range []string{"ID", "Data", "Seq", "S", "L", "M", "P", "A", "B", "T", "Tail", "direct"} {
		for _, pre := range []string{"{", ",", " "} {
			if j := strings.LastIndex(s, pre+f+"="); j > at {
				best, at = f, j
			}
		}
	}
	return best
}

func reuseStream(r *vh.Rng, rounds int, watchdog int, sum *vh.Summary) {
	gChoices := []int{2, 4, 8, 16, 32, 64}
	for round := 0; round < rounds; round++ {
		format := vh.Formats[round%len(vh.Formats)]
		opts := vh.Opts{"Canonical": true}
		if (round/len(vh.Formats))%3 == 1 {
			opts["ZeroCopy"] = true
		}
		if format == "msgpack" && (round/len(vh.Formats))%2 == 0 {
			opts["WriteExt"] = true // []byte as bin (else legacy raw)
		}
		if format == "cbor" && r.Chance(1, 3) {
			opts["IndefiniteLength"] = true
		}
		if r.Chance(1, 3) {
			opts["StructToArray"] = true
		}
		if r.Chance(1, 4) {
			opts["SliceElementReset"] = true
		}
		if r.Chance(1, 4) {
			opts["MapValueReset"] = true
		}
		if r.Chance(1, 3) {
			opts["ReaderBufferSize"] = r.PickInt(16, 4096)
		}
		G := gChoices[(round/len(vh.Formats)+round)%len(gChoices)]
		steps := len(ruLens) + r.Intn(6)
		withBarrier := round%2 == 0
		he := vh.NewHandle(format, opts)
		// inputs: [g][step] record message, bare byte string message
		recIn := make([][][]byte, G)
		dirIn := make([][][]byte, G)
		useIO := make([]bool, G)
		reuseDec := make([]bool, G)
		encFailed := false
		for g := 0; g < G; g++ {
			useIO[g] = (g+round)%3 == 0
			reuseDec[g] = (g/3+round)%2 == 0
			recIn[g] = make([][]byte, steps)
			dirIn[g] = make([][]byte, steps)
			for s := 0; s < steps; s++ {
				if codec.NewEncoderBytes(&recIn[g][s], he).Encode(ruMessage(g, s)) != nil {
					encFailed = true
				}
				dir := ruBytes(g, s, 9, ruLen(g, s, 9))
				if codec.NewEncoderBytes(&dirIn[g][s], he).Encode(dir) != nil {
					encFailed = true
				}
			}
		}
		cj := map[string]interface{}{"format": format, "opts": opts.String(), "goroutines": G, "steps": steps, "barrier_each_step": withBarrier, "seed_index": round}
		if encFailed {
			sum.FailC("reuse", "encode:"+format, "encoding a record with small byte strings failed", cj)
			continue
		}
		// sequential reference: every goroutine's sequence alone, on a fresh Handle, private copies of the inputs
		hs := vh.NewHandle(format, opts)
		ref := make([][]string, G)
		{
			ri, di := ruCopy2(recIn), ruCopy2(dirIn)
			for g := 0; g < G; g++ {
				d := &ruDest{}
				for s := 0; s < steps; s++ {
					e := ruStep(hs, d, ri[g][s], di[g][s], useIO[g], reuseDec[g])
					ref[g] = append(ref[g], ruRender(d, e))
				}
			}
		}
		// concurrent run on one shared Handle
		hc := vh.NewHandle(format, opts)
		ri, di := ruCopy2(recIn), ruCopy2(dirIn)
		dests := make([]*ruDest, G)
		got := make([][]string, G)
		lastErr := make([]string, G)
		bar := newBarrier(G)
		var wg sync.WaitGroup
		start := make(chan struct{})
		for g := 0; g < G; g++ {
			dests[g] = &ruDest{}
			got[g] = make([]string, steps)
			wg.Add(1)
			go func(g int) {
				defer wg.Done()
				<-start
				for s := 0; s < steps; s++ {
					e := ruStep(hc, dests[g], ri[g][s], di[g][s], useIO[g], reuseDec[g])
					lastErr[g] = e
					if withBarrier {
						bar.wait() // every goroutine has finished step s
						got[g][s] = ruRender(dests[g], e)
						bar.wait() // every goroutine has looked at its result
					} else if s%4 == 1 {
						runtime.Gosched()
					}
				}
			}(g)
		}
		done := make(chan struct{})
		go func() { wg.Wait(); close(done) }()
		close(start)
		select {
		case <-done:
		case <-time.After(time.Duration(watchdog) * time.Second):
			sum.FailC("reuse", "deadlock:"+format, "goroutines decoding into their own reused destinations on one Handle did not finish before the watchdog", cj)
			return
		}
		// all goroutines have finished: what every destination holds now is the result of its last step
		for g := 0; g < G; g++ {
			got[g][steps-1] = ruRender(dests[g], lastErr[g])
		}
		wrong, first := 0, ""
		var fc map[string]interface{}
		for g := 0; g < G; g++ {
			for s := 0; s < steps; s++ {
				if got[g][s] == "" || got[g][s] == ref[g][s] {
					continue
				}
				wrong++
				if fc == nil {
					first = ruFirstDiff(got[g][s], ref[g][s])
					fc = map[string]interface{}{"goroutine": g, "step": s, "field": first, "io": useIO[g], "decoder_reused": reuseDec[g],
						"holds": got[g][s], "alone": ref[g][s], "input": vh.Hex(recIn[g][s]), "input_bare": vh.Hex(dirIn[g][s])}
					if s > 0 {
						fc["previous_input"], fc["previous_input_bare"] = vh.Hex(recIn[g][s-1]), vh.Hex(dirIn[g][s-1])
					}
				}
			}
		}
		if wrong > 0 {
			for k, v := range cj {
				fc[k] = v
			}
			fc["wrong_results"] = wrong
			kind := "other"
			switch first {
			case "Data", "L", "M", "P", "B", "direct":
				kind = "bytes"
			case "S", "T":
				kind = "string"
			}
			sum.FailC("reuse", "reuse:"+kind, "once all goroutines sharing a Handle have finished a step, a goroutine's own reused decode destination holds a value different from what the same sequence of decodes gives alone", fc)
		}
		key := fmt.Sprintf("reuse/%s/g%d/zc%v/bar%v", format, G, opts["ZeroCopy"] == true, withBarrier)
		sum.Count("reuse."+format, key)
		sum.Dist["reuse.decodes"] += 2 * G * steps
		if round == 0 {
			sum.Sample(cj)
		}
	}
}

// ---------- embed ----------

type emMember struct {
	t    reflect.Type
	desc string
}

var emSerial int

// emLeaf: a struct with a few scalar fields of unique names (some renamed by a tag under one of the keys)
func emFields(r *vh.Rng, tag string, n int) []reflect.StructField {
	var fs []reflect.StructField
	for i := 0; i < n; i++ {
		emSerial++
		f := reflect.StructField{Name: fmt.Sprintf("F%s_%d", tag, emSerial)}
		switch r.Intn(4) {
		case 0:
			f.Type = reflect.TypeOf(int(0))
		case 1:
			f.Type = reflect.TypeOf("")
		case 2:
			f.Type = reflect.TypeOf(uint32(0))
		default:
			f.Type = reflect.TypeOf(int64(0))
		}
		switch r.Intn(8) {
		case 0:
			f.Tag = reflect.StructTag(fmt.Sprintf(`json:"j%d"`, emSerial))
		case 1:
			f.Tag = reflect.StructTag(fmt.Sprintf(`codec:"c%d"`, emSerial))
		case 2:
			f.Tag = reflect.StructTag(fmt.Sprintf(`db:"d%d" json:"jd%d"`, emSerial, emSerial))
		}
		fs = append(fs, f)
	}
	return fs
}

// emChain builds E0 < E1 < ... < E(depth): E(i+1) embeds E(i) (by value or by pointer), has its own fields, and may
// embed a second, sibling struct or hold E(i) once more as a NAMED field.
func emChain(r *vh.Rng, tag string, depth int) []emMember {
	emSerial++
	out := []emMember{{reflect.StructOf(emFields(r, tag, 1+r.Intn(3))), "leaf"}}
	for i := 1; i <= depth; i++ {
		prev := out[i-1].t
		var fs []reflect.StructField
		desc := "embeds"
		emSerial++
		emb := reflect.StructField{Name: fmt.Sprintf("E%s_%d", tag, emSerial), Type: prev, Anonymous: true}
		if r.Chance(1, 3) {
			emb.Type = reflect.PointerTo(prev)
			desc += "-ptr"
		}
		own := emFields(r, tag, 1+r.Intn(2))
		if r.Bool() {
			fs = append(fs, emb)
			fs = append(fs, own...)
		} else {
			fs = append(fs, own...)
			fs = append(fs, emb)
		}
		switch r.Intn(4) {
		case 0:
			emSerial++
			fs = append(fs, reflect.StructField{Name: fmt.Sprintf("E%s_%d", tag, emSerial), Type: reflect.StructOf(emFields(r, tag, 1+r.Intn(2))), Anonymous: true})
			desc += "+sibling"
		case 1:
			emSerial++
			fs = append(fs, reflect.StructField{Name: fmt.Sprintf("N%s_%d", tag, emSerial), Type: prev})
			desc += "+named"
		}
		out = append(out, emMember{reflect.StructOf(fs), desc})
	}
	return out
}

func emName(f reflect.StructField, keys []string) (name string, skip bool) {
	for _, k := range keys {
		if s := f.Tag.Get(k); s != "" {
			if s == "-" {
				return "", true
			}
			if i := strings.IndexByte(s, ','); i >= 0 {
				s = s[:i]
			}
			if s != "" {
				return s, false
			}
			break
		}
	}
	return f.Name, false
}

// emFill sets every scalar leaf to a distinct non-zero value and allocates embedded pointers.
func emFill(v reflect.Value, ctr *int) {
	switch v.Kind() {
	case reflect.Ptr:
		v.Set(reflect.New(v.Type().Elem()))
		emFill(v.Elem(), ctr)
	case reflect.Struct:
		for i := 0; i < v.NumField(); i++ {
			emFill(v.Field(i), ctr)
		}
	case reflect.String:
		*ctr++
		v.SetString(fmt.Sprintf("s%d", *ctr))
	case reflect.Int, reflect.Int64:
		*ctr++
		v.SetInt(int64(*ctr))
	case reflect.Uint32:
		*ctr++
		v.SetUint(uint64(*ctr))
	}
}

// emExpect: the fields an encoding of v carries under the tag keys, by Go's embedding rules as the codec documents
// them: an untagged embedded struct (or pointer to struct) is inlined, anything else is a field under its name.
// Rendered as sorted "path=value" lines; nested (named) structs contribute "name.sub=value".
func emExpect(v reflect.Value, keys []string, prefix string, out *[]string) {
	t := v.Type()
	for i := 0; i < t.NumField(); i++ {
		f := t.Field(i)
		if f.PkgPath != "" && !f.Anonymous {
			continue
		}
		fv := v.Field(i)
		ft := f.Type
		for ft.Kind() == reflect.Ptr {
			ft = ft.Elem()
		}
		tagged := false
		for _, k := range keys {
			if s := f.Tag.Get(k); s != "" {
				tagged = !strings.HasPrefix(s, ",")
				break
			}
		}
		if f.Anonymous && ft.Kind() == reflect.Struct && !tagged {
			for fv.Kind() == reflect.Ptr {
				if fv.IsNil() {
					break
				}
				fv = fv.Elem()
			}
			if fv.Kind() == reflect.Struct {
				emExpect(fv, keys, prefix, out)
			}
			continue
		}
		name, skip := emName(f, keys)
		if skip {
			continue
		}
		for fv.Kind() == reflect.Ptr && !fv.IsNil() {
			fv = fv.Elem()
		}
		if fv.Kind() == reflect.Struct {
			emExpect(fv, keys, prefix+name+".", out)
			continue
		}
		*out = append(*out, fmt.Sprintf("%s%s=%v", prefix, name, fv.Interface()))
	}
}

// emTree: the same fields as a generic tree (what an independent producer would send)
func emTree(lines []string) map[string]interface{} {
	root := map[string]interface{}{}
	for _, l := range lines {
		eq := strings.IndexByte(l, '=')
		path, val := strings.Split(l[:eq], "."), l[eq+1:]
		m := root
		for _, p := range path[:len(path)-1] {
			sub, _ := m[p].(map[string]interface{})
			if sub == nil {
				sub = map[string]interface{}{}
				m[p] = sub
			}
			m = sub
		}
		var x interface{} = val
		if !strings.HasPrefix(val, "s") {
			var n int64
			fmt.Sscanf(val, "%d", &n)
			x = n
		}
		m[path[len(path)-1]] = x
	}
	return root
}

func emFlattenNaked(v interface{}, prefix string, out *[]string) {
	switch m := v.(type) {
	case map[string]interface{}:
		for k, x := range m {
			emFlattenNaked(x, prefix+k+".", out)
		}
	case map[interface{}]interface{}:
		for k, x := range m {
			emFlattenNaked(x, prefix+fmt.Sprint(k)+".", out)
		}
	case []byte:
		*out = append(*out, fmt.Sprintf("%s=%s", strings.TrimSuffix(prefix, "."), m))
	default:
		*out = append(*out, fmt.Sprintf("%s=%v", strings.TrimSuffix(prefix, "."), v))
	}
}

type emHandle struct {
	h    codec.Handle
	keys []string
	name string
}

func emNewHandles(format string, opts vh.Opts, k int, rot int) []emHandle {
	mk := func(keys []string, own bool, name string) emHandle {
		h := vh.NewHandle(format, opts)
		bh := reflect.ValueOf(h).Elem().FieldByName("BasicHandle")
		if own {
			bh.FieldByName("TypeInfos").Set(reflect.ValueOf(codec.NewTypeInfos(keys)))
		}
		bh.FieldByName("MapType").Set(reflect.ValueOf(reflect.TypeOf(map[string]interface{}(nil))))
		return emHandle{h, keys, name}
	}
	all := []emHandle{
		mk([]string{"codec", "json"}, false, "default"),
		mk([]string{"db", "json"}, true, "db,json"),
		mk([]string{"codec", "json"}, true, "codec,json"),
		mk([]string{"json"}, true, "json"),
	}
	out := make([]emHandle, 0, k)
	for i := 0; i < k; i++ {
		out = append(out, all[(i+rot)%len(all)])
	}
	return out
}

// emCheck: one type on one Handle, both directions, against the reflect oracle. Returns "" or a description.
func emCheck(eh emHandle, t reflect.Type) (class, detail string) {
	defer func() {
		if x := recover(); x != nil {
			class, detail = "panic", fmt.Sprint(x)
		}
	}()
	pv := reflect.New(t)
	ctr := 0
	emFill(pv.Elem(), &ctr)
	var want []string
	emExpect(pv.Elem(), eh.keys, "", &want)
	sort.Strings(want)
	// encode, read back generically
	var bs []byte
	if err := codec.NewEncoderBytes(&bs, eh.h).Encode(pv.Interface()); err != nil {
		return "enc-error", err.Error()
	}
	var naked interface{}
	if err := codec.NewDecoderBytes(bs, eh.h).Decode(&naked); err != nil {
		return "enc-unreadable", err.Error()
	}
	var got []string
	emFlattenNaked(naked, "", &got)
	sort.Strings(got)
	if strings.Join(got, "\n") != strings.Join(want, "\n") {
		return "enc-fields", fmt.Sprintf("encoded %v, the type's fields are %v", got, want)
	}
	// decode what an independent producer sends
	var in []byte
	if err := codec.NewEncoderBytes(&in, eh.h).Encode(emTree(want)); err != nil {
		return "enc-error", err.Error()
	}
	pd := reflect.New(t)
	if err := codec.NewDecoderBytes(in, eh.h).Decode(pd.Interface()); err != nil {
		return "dec-error", err.Error()
	}
	var back []string
	emExpect(pd.Elem(), eh.keys, "", &back)
	sort.Strings(back)
	// fields under a nil embedded pointer are absent from the rendering: a decode that does not reach them differs as well
	if strings.Join(back, "\n") != strings.Join(want, "\n") {
		return "dec-fields", fmt.Sprintf("decoded %v, sent %v", back, want)
	}
	return "", ""
}

func embedStream(r *vh.Rng, rounds int, watchdog int, sum *vh.Summary) {
	gChoices := []int{2, 4, 8, 16}
	for round := 0; round < rounds; round++ {
		format := vh.Formats[round%len(vh.Formats)]
		opts := vh.Opts{}
		if r.Chance(1, 3) {
			opts["Canonical"] = true
		}
		G := gChoices[(round/len(vh.Formats)+round)%len(gChoices)]
		nh := 2 + round%2
		hs := emNewHandles(format, opts, nh, round/2)
		sharedFamily := round%3 == 2
		depth := 1 + (round/3)%3
		tag := fmt.Sprintf("r%dx%d", vh.SeedFromEnv()%100000, round)
		fams := make([][]emMember, G)
		for g := range fams {
			if sharedFamily && g > 0 {
				fams[g] = fams[0]
			} else {
				fams[g] = emChain(r, fmt.Sprintf("%sg%d", tag, g), depth)
			}
		}
		type bad struct {
			g, member    int
			handle       string
			class, what  string
			desc, typstr string
		}
		var mu sync.Mutex
		var bads []bad
		var wg sync.WaitGroup
		start := make(chan struct{})
		for g := 0; g < G; g++ {
			wg.Add(1)
			go func(g int) {
				defer wg.Done()
				<-start
				// every member of the chain is a root type on every Handle before the struct embedding it is first seen
				for mi, m := range fams[g] {
					for hi := range hs {
						eh := hs[(hi+g)%len(hs)]
						if c, d := emCheck(eh, m.t); c != "" {
							mu.Lock()
							bads = append(bads, bad{g, mi, eh.name, c, d, m.desc, m.t.String()})
							mu.Unlock()
						}
					}
				}
			}(g)
		}
		done := make(chan struct{})
		go func() { wg.Wait(); close(done) }()
		close(start)
		names := make([]string, len(hs))
		for i := range hs {
			names[i] = hs[i].name
		}
		cj := map[string]interface{}{"format": format, "opts": opts.String(), "goroutines": G, "typeinfos": strings.Join(names, " | "), "chain_depth": depth, "shared_family": sharedFamily, "seed_index": round}
		select {
		case <-done:
		case <-time.After(time.Duration(watchdog) * time.Second):
			sum.FailC("embed", "deadlock:"+format, "goroutines using several Handles with different TypeInfos did not finish before the watchdog", cj)
			return
		}
		if len(bads) > 0 {
			b := bads[0]
			cj["wrong"] = len(bads)
			cj["goroutine"], cj["chain_member"], cj["member_shape"], cj["handle_typeinfos"], cj["type"], cj["detail"] = b.g, b.member, b.desc, b.handle, b.typstr, b.what
			sum.FailC("embed", "embed:"+b.class, "a struct type with embedded structs, first used on a Handle after the embedded types had been used on their own through several TypeInfos, is encoded/decoded with a field set different from the one the embedding rules of Go give", cj)
		}
		key := fmt.Sprintf("embed/%s/h%d/d%d/sh%v", format, nh, depth, sharedFamily)
		sum.Count("embed."+format, key)
		sum.Dist["embed.type_uses"] += G * (depth + 1) * nh
		if round == 0 {
			sum.Sample(cj)
		}
	}
}

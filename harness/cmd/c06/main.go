// c06: a configured Handle shared by many goroutines.
//
// Each trial builds a FRESH Handle (with its own TypeInfos) and a set of FRESH
// struct types (reflect.StructOf, unique field names) so that every first-use
// path (one-time handle init, typeInfo load, enc/dec function load) races.
// 2..64 goroutines start on a barrier and each runs its own list of
// encode/decode operations over bytes and io transports.  The same operations
// are run sequentially on a second fresh Handle with the same options.
//
// Direct oracle: every operation's result (bytes, decoded value, error-ness)
// equals the sequential result; no panic; no deadlock (watchdog); the published
// cache slices (verif hook) are sorted, duplicate-free, keyed consistently,
// complete, and have the same key sets as after the sequential run.
// Model cases: the snapshots are written as Coq terms; C06/Corr.v evaluates the
// model's invariant, search and sequential insert on them.
//
// Stream "pool": Canonical handles and maps whose keys go through kMapCanonical's
// out-of-band branch (struct / array / interface keys, keys with Text/Binary
// marshalers that yield the processor), i.e. through the side encoders pooled in
// BasicHandle.sideEncPool; a few hundred goroutines (>= 8 x GOMAXPROCS) on one
// Handle; every goroutine's bytes are compared with the bytes it gets alone.
//
// The same program built with -race is run by both tiers (checks/C06.py).
package main

import (
	"bytes"
	"flag"
	"fmt"
	"os"
	"reflect"
	"runtime"
	"sort"
	"strings"
	"sync"
	"time"

	"verifharness/vh"

	"github.com/ugorji/go/codec"
)

var typeSerial int

// freshStruct builds a struct type nobody has seen before (the unique field name makes reflect.StructOf
// return a new type), with nested fresh structs, slices, maps, pointers and arrays of them.
func freshStruct(r *vh.Rng, tag string, depth int) reflect.Type {
	typeSerial++
	n := 1 + r.Intn(4)
	fs := []reflect.StructField{{Name: fmt.Sprintf("U%s_%d", tag, typeSerial), Type: reflect.TypeOf(int(0))}}
	for i := 0; i < n; i++ {
		var ft reflect.Type
		switch k := r.Intn(10); {
		case k < 3 || depth >= 2:
			ft = vh.RandScalarType(r, vh.TypeOpts{NoFloat: true})
		case k == 3:
			ft = freshStruct(r, tag, depth+1)
		case k == 4:
			ft = reflect.SliceOf(freshStruct(r, tag, depth+1))
		case k == 5:
			ft = reflect.MapOf(reflect.TypeOf(""), freshStruct(r, tag, depth+1))
		case k == 6:
			ft = reflect.PointerTo(freshStruct(r, tag, depth+1))
		case k == 7:
			ft = reflect.ArrayOf(1+r.Intn(2), freshStruct(r, tag, depth+1))
		case k == 8:
			ft = reflect.SliceOf(vh.RandScalarType(r, vh.TypeOpts{NoFloat: true}))
		default:
			ft = reflect.MapOf(reflect.TypeOf(""), vh.RandScalarType(r, vh.TypeOpts{NoFloat: true}))
		}
		f := reflect.StructField{Name: fmt.Sprintf("F%d", i), Type: ft}
		if r.Chance(1, 4) {
			f.Tag = reflect.StructTag(fmt.Sprintf(`codec:"n%d,omitempty"`, i))
		}
		fs = append(fs, f)
	}
	return reflect.StructOf(fs)
}

type op struct {
	ti  int  // index into the trial's types
	io  bool // io transport (else bytes)
	dec bool // decode (of the reference encoding) else encode
}

type result struct {
	bytes []byte
	val   reflect.Value
	err   bool
	pan   string
}

func runOp(h codec.Handle, t reflect.Type, v reflect.Value, o op, refBytes []byte) (res result) {
	defer func() {
		if x := recover(); x != nil {
			res.pan = fmt.Sprint(x)
		}
	}()
	if !o.dec {
		var out []byte
		var err error
		if o.io {
			var buf bytes.Buffer
			err = codec.NewEncoder(&buf, h).Encode(v.Interface())
			out = buf.Bytes()
		} else {
			err = codec.NewEncoderBytes(&out, h).Encode(v.Interface())
		}
		res.bytes, res.err = out, err != nil
		return
	}
	p := reflect.New(t)
	var err error
	if o.io {
		err = codec.NewDecoder(bytes.NewReader(refBytes), h).Decode(p.Interface())
	} else {
		err = codec.NewDecoderBytes(refBytes, h).Decode(p.Interface())
	}
	res.val, res.err = p.Elem(), err != nil
	return
}

func sameResult(a, b result) bool {
	if a.pan != "" || b.pan != "" {
		return false
	}
	if a.err != b.err {
		return false
	}
	if !bytes.Equal(a.bytes, b.bytes) {
		return false
	}
	if a.val.IsValid() != b.val.IsValid() {
		return false
	}
	if a.val.IsValid() && !a.err && !vh.DeepEq(a.val, b.val, vh.EqOpts{}) {
		return false
	}
	return true
}

func coqEntries(es []codec.VerifC06CacheEntry) string {
	if len(es) == 0 {
		return "[]"
	}
	var sb strings.Builder
	sb.WriteString("[")
	for i, e := range es {
		if i > 0 {
			sb.WriteString(";")
		}
		fmt.Fprintf(&sb, "(%d,%d)", e.Rtid, e.Inner)
	}
	sb.WriteString("]%N")
	return sb.String()
}

func coqKeys(ks []uintptr) string {
	if len(ks) == 0 {
		return "[]"
	}
	var sb strings.Builder
	sb.WriteString("[")
	for i, k := range ks {
		if i > 0 {
			sb.WriteString(";")
		}
		fmt.Fprintf(&sb, "%d", k)
	}
	sb.WriteString("]%N")
	return sb.String()
}

func keysOf(es []codec.VerifC06CacheEntry) []uintptr {
	out := make([]uintptr, len(es))
	for i, e := range es {
		out[i] = e.Rtid
	}
	return out
}

// ---- stream "pool": the pooled side encoders/decoders ----

// yKey renders itself through a marshaler that yields the processor, as one that locks, logs or does I/O may.
type yKey struct{ G, I int }

func (k yKey) MarshalText() ([]byte, error) {
	runtime.Gosched()
	return []byte(fmt.Sprintf("g%04d-i%03d", k.G, k.I)), nil
}
func (k *yKey) UnmarshalText(b []byte) error {
	_, err := fmt.Sscanf(string(b), "g%04d-i%03d", &k.G, &k.I)
	return err
}
func (k yKey) MarshalBinary() ([]byte, error)  { return k.MarshalText() }
func (k *yKey) UnmarshalBinary(b []byte) error { return k.UnmarshalText(b) }

type sKey struct {
	G, I int
	S    string
}

var poolKinds = []string{"yielding-marshaler", "struct", "array", "iface-struct"}

func poolValue(kind string, g, n int) interface{} {
	switch kind {
	case "yielding-marshaler":
		m := map[yKey]int{}
		for i := 0; i < n; i++ {
			m[yKey{g, i}] = g*1000 + i
		}
		return m
	case "struct":
		m := map[sKey]string{}
		for i := 0; i < n; i++ {
			m[sKey{g, i, fmt.Sprintf("s%d", i*g)}] = fmt.Sprintf("v%d-%d", g, i)
		}
		return m
	case "array":
		m := map[[3]int]int{}
		for i := 0; i < n; i++ {
			m[[3]int{g, i, g ^ i}] = g + i
		}
		return m
	default:
		m := map[interface{}]int{}
		for i := 0; i < n; i++ {
			m[sKey{g, i, "k"}] = g - i
		}
		return m
	}
}

func poolStream(r *vh.Rng, rounds int, watchdog int, sum *vh.Summary) {
	ng := 8 * runtime.GOMAXPROCS(0)
	if ng < 256 {
		ng = 256
	}
	for round := 0; round < rounds; round++ {
		format := vh.Formats[round%len(vh.Formats)]
		kind := poolKinds[(round/len(vh.Formats)+round)%len(poolKinds)]
		if round < len(vh.Formats) {
			kind = "yielding-marshaler"
		}
		opts := vh.Opts{"Canonical": true}
		if format == "json" && r.Bool() {
			opts["MapKeyAsString"] = true
		}
		h := vh.NewHandle(format, opts)
		nkeys := 6 + r.Intn(10)
		iters := 6 + r.Intn(6)
		useIO := r.Chance(1, 3)
		vals := make([]interface{}, ng)
		want := make([][]byte, ng)
		wantErr := make([]bool, ng)
		for g := range vals {
			vals[g] = poolValue(kind, g, nkeys)
			wantErr[g] = codec.NewEncoderBytes(&want[g], h).Encode(vals[g]) != nil
		}
		type bad struct {
			g, iter  int
			got      []byte
			err, pan string
		}
		var mu sync.Mutex
		var bads []bad
		var wg sync.WaitGroup
		start := make(chan struct{})
		for g := 0; g < ng; g++ {
			wg.Add(1)
			go func(g int) {
				defer wg.Done()
				<-start
				for iter := 0; iter < iters; iter++ {
					var out []byte
					var b *bad
					func() {
						defer func() {
							if x := recover(); x != nil {
								b = &bad{g: g, iter: iter, pan: fmt.Sprint(x)}
							}
						}()
						var err error
						if useIO {
							var buf bytes.Buffer
							err = codec.NewEncoder(&buf, h).Encode(vals[g])
							out = buf.Bytes()
						} else {
							err = codec.NewEncoderBytes(&out, h).Encode(vals[g])
						}
						if (err != nil) != wantErr[g] || (err == nil && !bytes.Equal(out, want[g])) {
							b = &bad{g: g, iter: iter, got: append([]byte(nil), out...), err: fmt.Sprint(err)}
						}
					}()
					if b != nil {
						mu.Lock()
						bads = append(bads, *b)
						mu.Unlock()
						return
					}
				}
			}(g)
		}
		done := make(chan struct{})
		go func() { wg.Wait(); close(done) }()
		close(start)
		cj := map[string]interface{}{"format": format, "opts": opts.String(), "goroutines": ng, "key_kind": kind, "keys": nkeys, "iters": iters, "io": useIO, "seed_index": round}
		select {
		case <-done:
		case <-time.After(time.Duration(watchdog) * time.Second):
			sum.FailC("pool", "deadlock:"+format, "goroutines encoding canonical maps on one Handle did not finish before the watchdog", cj)
			return
		}
		if len(bads) > 0 {
			b := bads[0]
			cj["wrong_goroutines"] = len(bads)
			cj["goroutine"], cj["iter"] = b.g, b.iter
			cj["got"], cj["want"] = vh.Hex(b.got), vh.Hex(want[b.g])
			cj["err"], cj["panic"] = b.err, b.pan
			sum.FailC("pool", "sidecoder:"+format+":"+kind, "an Encode on a Canonical Handle shared by several goroutines gave bytes different from the bytes the same Encode gives alone (map keys go through the pooled side encoder)", cj)
		}
		sum.Count("pool."+format, fmt.Sprintf("pool/%s/%s/io%v", format, kind, useIO))
		sum.Dist["pool.encodes"] += ng * iters
		if round == 0 {
			sum.Sample(cj)
		}
	}
}

func main() {
	nTrials := flag.Int("trials", 60, "trials (fresh handle + fresh types each)")
	maxG := flag.Int("maxg", 64, "max goroutines per trial")
	casesDir := flag.String("cases", "/verif/build/c06/cases", "directory for the model case files")
	watchdog := flag.Int("watchdog", 60, "seconds before a trial counts as deadlocked")
	poolRounds := flag.Int("pool", 10, "rounds of the pooled-side-encoder stream (one Canonical handle, >= 8 x GOMAXPROCS goroutines each)")
	nakedRounds := flag.Int("naked", 10, "rounds of the naked-decode stream (native timestamps into interface{}, one shared Handle)")
	poolStateRounds := flag.Int("poolstate", 15, "rounds of the pooled-side-encoder state stream (aborted operations, then acyclic values sharing the pointers)")
	reuseRounds := flag.Int("reuse", 15, "rounds of the reused-destination stream (own Decoder and own reused record per goroutine, small byte-string lengths, results compared after all goroutines finished)")
	embedRounds := flag.Int("embed", 15, "rounds of the embedding stream (several Handles with different TypeInfos, fresh struct types with embedding, reflect oracle)")
	caseTrials := flag.Int("casetrials", 1<<30, "only the first N trials are written as model cases")
	flag.Parse()
	seed := vh.SeedFromEnv()
	r := vh.NewRng(seed)
	sum := vh.NewSummary("trial = fresh Handle + fresh TypeInfos + fresh reflect.StructOf types, 2..64 goroutines released by a barrier, each running its own enc/dec ops over bytes and io; non-trivial = at least two goroutines use a common fresh type (first-use race possible); distinct by (format, goroutines bucket, types, shared types, transports, cache sizes bucket). Each trial also yields one model case per non-empty published cache slice (9 per handle). pool: Canonical handle x key kind (yielding Text/Binary marshaler, struct, array, interface{} holding struct) x format, >= 8 x GOMAXPROCS goroutines each re-encoding its own map, bytes compared with the sequential bytes; distinct by (format, key kind, transport). naked: one shared Handle, >= 4 x GOMAXPROCS goroutines each decoding its own stream with native timestamps/strings/ints into interface{} (slice, map, nested), value compared with the same bytes decoded alone; distinct by (format, transport, has native times). poolstate: Canonical+CheckCircularRef Handle, operations that abort inside an out-of-band map key (cycle, failing marshaler under a pointer), then the same pointers acyclic from several goroutines, bytes compared with a fresh Handle; non-trivial = some operation aborted; distinct by (format, abort kind). reuse: one shared Handle, 2..64 goroutines each with its own Decoder (reused or new per message, bytes or io) and its own REUSED destinations (record with []byte/string/[][]byte/map[string][]byte/*[]byte fields and a bare []byte) decoding a sequence whose byte-string lengths walk nil,0,1,0,2,1,0,3,...; what each destination holds once ALL goroutines have finished the step (barrier per step, or only at the end) is compared with the same sequence run alone; distinct by (format, goroutines, ZeroCopy, barrier mode). embed: 2-3 Handles with different TypeInfos (default, NewTypeInfos(db/json), (codec/json), (json)), 2..16 goroutines with fresh reflect.StructOf embedding chains (value / pointer embedding, sibling embedded struct, named field of the embedded type, tag renames per key), every chain member used as a root on every Handle before the embedding struct is first seen; encoded field set and decoded fields compared with Go's embedding rules computed by reflect; distinct by (format, handles, chain depth, shared family)")
	cv := vh.NewCases(*casesDir, "From Coq Require Import List NArith.\nFrom Verif Require Import C06.Model C06.Corr.\nImport ListNotations.", "case", "mismatches", 40)
	caseID := 0
	gChoices := []int{2, 3, 4, 8, 16, 32, 64}
trials:
	for trial := 0; trial < *nTrials; trial++ {
		format := vh.Formats[trial%len(vh.Formats)]
		opts := vh.RandEncOpts(r, format)
		opts["Canonical"] = true
		if r.Chance(1, 3) {
			opts["CheckCircularRef"] = true
		}
		G := gChoices[r.Intn(len(gChoices))]
		if G > *maxG {
			G = *maxG
		}
		nT := 2 + r.Intn(8)
		tag := fmt.Sprintf("s%dt%d", seed%100000, trial)
		types := make([]reflect.Type, nT)
		vals := make([]reflect.Value, nT)
		for i := range types {
			types[i] = freshStruct(r, tag, 0)
			vals[i] = vh.RandValue(r, types[i], vh.ValOpts{NoNaN: true, NoInf: true, MaxLen: 3, ASCII: true, TimeNoNsec: true})
		}
		nShared := 1 + r.Intn(nT)
		ops := make([][]op, G)
		usedBy := make([]int, nT)
		for g := range ops {
			k := 1 + r.Intn(6)
			seen := map[int]bool{}
			for j := 0; j < k; j++ {
				var ti int
				if r.Chance(2, 3) {
					ti = r.Intn(nShared) // shared pool: contention on the same key
				} else {
					ti = r.Intn(nT)
				}
				if !seen[ti] {
					seen[ti] = true
					usedBy[ti]++
				}
				ops[g] = append(ops[g], op{ti: ti, io: r.Bool(), dec: r.Chance(2, 5)})
			}
		}
		newH := func() codec.Handle {
			h := vh.NewHandle(format, opts)
			bh := reflect.ValueOf(h).Elem().FieldByName("BasicHandle")
			bh.FieldByName("TypeInfos").Set(reflect.ValueOf(codec.NewTypeInfos([]string{"codec", "json"})))
			return h
		}
		// reference encodings from a third, warm handle (input of the decode ops)
		hr := newH()
		ref := make([][]byte, nT)
		for i := range types {
			var b []byte
			if err := codec.NewEncoderBytes(&b, hr).Encode(vals[i].Interface()); err != nil {
				b = nil
			}
			ref[i] = b
		}
		// sequential run on a fresh handle
		hs := newH()
		seq := make([][]result, G)
		for g := range ops {
			for _, o := range ops[g] {
				seq[g] = append(seq[g], runOp(hs, types[o.ti], vals[o.ti], o, ref[o.ti]))
			}
		}
		// concurrent run on another fresh handle
		hc := newH()
		conc := make([][]result, G)
		start := make(chan struct{})
		var wg sync.WaitGroup
		for g := range ops {
			wg.Add(1)
			go func(g int) {
				defer wg.Done()
				<-start
				for _, o := range ops[g] {
					conc[g] = append(conc[g], runOp(hc, types[o.ti], vals[o.ti], o, ref[o.ti]))
				}
			}(g)
		}
		done := make(chan struct{})
		go func() { wg.Wait(); close(done) }()
		close(start)
		cj := map[string]interface{}{"format": format, "opts": opts.String(), "goroutines": G, "types": nT, "shared": nShared, "seed_index": trial}
		select {
		case <-done:
		case <-time.After(time.Duration(*watchdog) * time.Second):
			sum.FailC("conc", "deadlock:"+format, "goroutines sharing a fresh Handle did not finish before the watchdog (deadlock or livelock)", cj)
			sum.Count("conc.deadlock", "")
			break trials
		}
		// per-operation results
		bad := 0
		for g := range ops {
			for j, o := range ops[g] {
				c, s := conc[g][j], seq[g][j]
				if c.pan != "" {
					cj2 := map[string]interface{}{"goroutine": g, "op": j, "type": types[o.ti].String(), "dec": o.dec, "io": o.io}
					for k, v := range cj {
						cj2[k] = v
					}
					sum.FailC("conc", fmt.Sprintf("panic:%s:dec=%v", format, o.dec), "an operation on a shared Handle panicked (escaped Encode/Decode)", cj2)
					bad++
					continue
				}
				if !sameResult(c, s) {
					cj2 := map[string]interface{}{"goroutine": g, "op": j, "type": types[o.ti].String(), "dec": o.dec, "io": o.io,
						"conc_err": c.err, "seq_err": s.err, "conc_bytes": vh.Hex(c.bytes), "seq_bytes": vh.Hex(s.bytes)}
					for k, v := range cj {
						cj2[k] = v
					}
					sum.FailC("conc", fmt.Sprintf("result:%s:dec=%v:io=%v", format, o.dec, o.io), "an operation on a Handle shared by several goroutines gave a result different from the sequential run", cj2)
					bad++
				}
			}
		}
		// cache snapshots
		sc, ss := codec.VerifC06CacheSnapshot(hc), codec.VerifC06CacheSnapshot(hs)
		if !codec.VerifC06HandleInited(hc) {
			sum.FailC("cache", "init:"+format, "Handle not marked initialised after use", cj)
		}
		total := 0
		for i := range sc {
			c, s := sc[i], ss[i]
			total += len(c.Entries)
			cj2 := map[string]interface{}{"cache": c.Name}
			for k, v := range cj {
				cj2[k] = v
			}
			okSorted, okKeyed := true, true
			for j, e := range c.Entries {
				if j > 0 && c.Entries[j-1].Rtid >= e.Rtid {
					okSorted = false
				}
				if e.Nil || e.Inner != e.Rtid {
					okKeyed = false
				}
			}
			if !okSorted {
				sum.FailC("cache", "unsorted:"+c.Name, "published cache slice is not strictly sorted by key (duplicate or misplaced entry)", cj2)
			}
			if !okKeyed {
				sum.FailC("cache", "miskeyed:"+c.Name, "published cache entry maps a key to a nil value or to the value of another type", cj2)
			}
			ck, sk := keysOf(c.Entries), keysOf(s.Entries)
			if fmt.Sprint(ck) != fmt.Sprint(sk) {
				cj2["conc_len"], cj2["seq_len"] = len(ck), len(sk)
				sum.FailC("cache", "keyset:"+c.Name, "cache key set after the concurrent run differs from the sequential run (entry lost or extra)", cj2)
			}
			if len(c.Entries) > 0 && trial < *caseTrials {
				order := append([]uintptr(nil), ck...)
				for j := len(order) - 1; j > 0; j-- {
					k := r.Intn(j + 1)
					order[j], order[k] = order[k], order[j]
				}
				cv.Add(fmt.Sprintf("mkcase %d %s %s %s", caseID, coqEntries(c.Entries), coqKeys(sk), coqKeys(order)))
				caseID++
				sum.ModelCases++
			}
		}
		// completeness: every top-level type used is in typeinfos and in the function cache of its direction/transport
		find := func(name string, rtid uintptr) bool {
			for _, c := range sc {
				if c.Name == name {
					j := sort.Search(len(c.Entries), func(j int) bool { return c.Entries[j].Rtid >= rtid })
					return j < len(c.Entries) && c.Entries[j].Rtid == rtid
				}
			}
			return false
		}
		for g := range ops {
			for j, o := range ops[g] {
				if conc[g][j].err || conc[g][j].pan != "" {
					continue
				}
				rtid := codec.VerifC06Rtid(types[o.ti])
				dir, tr := "enc", "Bytes"
				if o.dec {
					dir = "dec"
				}
				if o.io {
					tr = "IO"
				}
				if !find("typeinfos", rtid) || !(find(dir+tr, rtid) || find(dir+"NoExt"+tr, rtid)) {
					cj2 := map[string]interface{}{"type": types[o.ti].String(), "cache": dir + tr}
					for k, v := range cj {
						cj2[k] = v
					}
					sum.FailC("cache", "incomplete:"+dir+tr, "a type that was encoded/decoded successfully is missing from the published caches", cj2)
				}
			}
		}
		shared := 0
		for _, n := range usedBy {
			if n >= 2 {
				shared++
			}
		}
		trs := map[string]bool{}
		for g := range ops {
			for _, o := range ops[g] {
				trs[fmt.Sprintf("%v%v", o.io, o.dec)] = true
			}
		}
		key := fmt.Sprintf("%s/g%d/t%d/sh%d/tr%d/sz%d", format, G, nT, shared, len(trs), total/16)
		if shared == 0 {
			key = ""
		}
		sum.Count("conc."+format, key)
		sum.Dist[fmt.Sprintf("conc.g%d", G)]++
		sum.Dist["conc.ops"] += func() (n int) {
			for g := range ops {
				n += len(ops[g])
			}
			return
		}()
		sum.Dist["cache.entries"] += total
		if bad == 0 {
			sum.Dist["conc.trials_ok"]++
		}
		if trial < 3 {
			cj["cache_entries"] = total
			sum.Sample(cj)
		}
	}
	cv.Close()
	poolStream(r.Fork(), *poolRounds, *watchdog, sum)
	nakedStream(r.Fork(), *nakedRounds, *watchdog, sum)
	poolStateStream(r.Fork(), *poolStateRounds, *watchdog, sum)
	reuseStream(r.Fork(), *reuseRounds, *watchdog, sum)
	embedStream(r.Fork(), *embedRounds, *watchdog, sum)
	sum.Print()
	os.Stdout.Sync()
}

// Streams of c06 about state that is shared by every user of a Handle (or of the
// package) besides the published caches:
//
//	"naked":     concurrent decodes, on one shared Handle, of streams carrying NATIVE
//	             timestamps (and every other naked kind) into untyped destinations
//	             (interface{}, []interface{}, map[string]interface{}); each result is
//	             compared with what the same bytes decode to alone.  DecodeNaked boxes
//	             scalars through package-level reflect.Value templates: they must be
//	             copied, never written.
//	"poolstate": the POOLED side encoders of a Handle (out-of-band canonical map keys)
//	             must come out of the pool behaving like new ones whatever their last
//	             user did: operations that abort inside a side encoder (a genuine
//	             cycle, a failing marshaler, under CheckCircularRef) are followed, on
//	             the same Handle and from several goroutines, by encodes of ACYCLIC
//	             values that share the same pointers; every result must equal the
//	             encoding produced alone on a fresh Handle.
package main

import (
	"bytes"
	"errors"
	"fmt"
	"reflect"
	"runtime"
	"sync"
	"time"

	"verifharness/vh"

	"github.com/ugorji/go/codec"
)

// ---------- naked ----------

func nakedValue(r *vh.Rng, g, n int) interface{} {
	base := time.Unix(1_600_000_000+int64(g)*86_400, int64(g)*1000).UTC()
	items := make([]interface{}, 0, n+3)
	for i := 0; i < n; i++ {
		switch i % 5 {
		case 0, 1, 2:
			items = append(items, base.Add(time.Duration(i)*time.Hour+time.Duration(g)*time.Second))
		case 3:
			items = append(items, fmt.Sprintf("g%d-i%d", g, i))
		default:
			items = append(items, int64(g*1000+i))
		}
	}
	switch g % 3 {
	case 0:
		return items
	case 1:
		m := map[string]interface{}{}
		for i, x := range items {
			m[fmt.Sprintf("k%02d", i)] = x
		}
		return m
	default:
		return []interface{}{items, map[string]interface{}{"t": items[0], "u": items[1]}, items[2]}
	}
}

// countTimes: number of time.Time leaves in a decoded naked value
func countTimes(v interface{}) int {
	switch x := v.(type) {
	case time.Time:
		return 1
	case []interface{}:
		n := 0
		for _, e := range x {
			n += countTimes(e)
		}
		return n
	case map[string]interface{}:
		n := 0
		for _, e := range x {
			n += countTimes(e)
		}
		return n
	case map[interface{}]interface{}:
		n := 0
		for _, e := range x {
			n += countTimes(e)
		}
		return n
	}
	return 0
}

func nakedStream(r *vh.Rng, rounds int, watchdog int, sum *vh.Summary) {
	ng := 4 * runtime.GOMAXPROCS(0)
	if ng < 64 {
		ng = 64
	}
	for round := 0; round < rounds; round++ {
		format := vh.Formats[round%len(vh.Formats)]
		opts := vh.Opts{}
		switch format {
		case "msgpack":
			opts["WriteExt"] = true // timestamps as the native timestamp extension
		case "cbor":
			if r.Bool() {
				opts["TimeRFC3339"] = true // tag 0 instead of tag 1
			}
		}
		if r.Bool() {
			opts["ReaderBufferSize"] = r.PickInt(0, 16, 4096)
		}
		h := vh.NewHandle(format, opts)
		useIO := r.Chance(1, 3)
		ins := make([][]byte, ng)
		want := make([]interface{}, ng)
		wantErr := make([]bool, ng)
		times := 0
		for g := 0; g < ng; g++ {
			v := nakedValue(r, g, 30+r.Intn(40))
			if err := codec.NewEncoderBytes(&ins[g], h).Encode(v); err != nil {
				ins[g] = nil
			}
			// the result the same bytes give alone
			wantErr[g] = codec.NewDecoderBytes(ins[g], h).Decode(&want[g]) != nil
			times += countTimes(want[g])
		}
		iters := 20 + r.Intn(12)
		type bad struct {
			g, iter int
			got     string
			pan     string
		}
		var mu sync.Mutex
		var bads []bad
		var wg sync.WaitGroup
		start := make(chan struct{})
		for g := 0; g < ng; g++ {
			wg.Add(1)
			go func(g int) {
				defer wg.Done()
				<-start
				for iter := 0; iter < iters; iter++ {
					var b *bad
					func() {
						defer func() {
							if x := recover(); x != nil {
								b = &bad{g: g, iter: iter, pan: fmt.Sprint(x)}
							}
						}()
						var got interface{}
						var err error
						if useIO {
							err = codec.NewDecoder(bytes.NewReader(ins[g]), h).Decode(&got)
						} else {
							err = codec.NewDecoderBytes(ins[g], h).Decode(&got)
						}
						if (err != nil) != wantErr[g] || (err == nil && !vh.DeepEq(reflect.ValueOf(&got).Elem(), reflect.ValueOf(&want[g]).Elem(), vh.EqOpts{})) {
							b = &bad{g: g, iter: iter, got: fmt.Sprintf("%v", got)}
						}
					}()
					if b != nil {
						mu.Lock()
						bads = append(bads, *b)
						mu.Unlock()
						return
					}
					if iter%3 == 0 {
						runtime.Gosched()
					}
				}
			}(g)
		}
		done := make(chan struct{})
		go func() { wg.Wait(); close(done) }()
		close(start)
		cj := map[string]interface{}{"format": format, "opts": opts.String(), "goroutines": ng, "iters": iters, "io": useIO, "seed_index": round, "native_times": times}
		select {
		case <-done:
		case <-time.After(time.Duration(watchdog) * time.Second):
			sum.FailC("naked", "deadlock:"+format, "goroutines decoding into interface{} on one Handle did not finish before the watchdog", cj)
			return
		}
		if len(bads) > 0 {
			b := bads[0]
			cj["wrong_goroutines"] = len(bads)
			cj["goroutine"], cj["iter"] = b.g, b.iter
			cj["input"] = vh.Hex(ins[b.g])
			cj["got"], cj["want"], cj["panic"] = b.got, fmt.Sprintf("%v", want[b.g]), b.pan
			sum.FailC("naked", "naked:"+format, "a Decode into interface{} on a Handle shared by several goroutines gave a value different from what the same bytes decode to alone", cj)
		}
		key := fmt.Sprintf("naked/%s/io%v/times%v", format, useIO, times > 0)
		sum.Count("naked."+format, key)
		sum.Dist["naked.decodes"] += ng * iters
		if times > 0 {
			sum.Dist["naked.rounds_with_native_times"]++
		}
		if round == 0 {
			sum.Sample(cj)
		}
	}
}

// ---------- poolstate ----------

type psNode struct {
	ID   int
	Fl   *psFlaky // encoded while the node is on the circular-reference stack
	Next *psNode
}

// psKey is a map key that is encoded out of band (struct key) and reaches pointers.
type psKey struct {
	N int
	P *psNode
}

var errFlaky = errors.New("flaky marshaler")

// psFlaky fails while armed (a marshaler that fails half-way through a key).
type psFlaky struct {
	Armed *bool
	V     int
}

func (f *psFlaky) MarshalText() ([]byte, error) {
	if f.Armed != nil && *f.Armed {
		return nil, errFlaky
	}
	return []byte(fmt.Sprintf("f%d", f.V)), nil
}
func (f *psFlaky) UnmarshalText(b []byte) error {
	_, err := fmt.Sscanf(string(b), "f%d", &f.V)
	return err
}
func (f *psFlaky) MarshalBinary() ([]byte, error) { return f.MarshalText() }
func (f *psFlaky) UnmarshalBinary(b []byte) error { return f.UnmarshalText(b) }

func poolStateStream(r *vh.Rng, rounds int, watchdog int, sum *vh.Summary) {
	ng := 2 * runtime.GOMAXPROCS(0)
	if ng < 16 {
		ng = 16
	}
	for round := 0; round < rounds; round++ {
		format := vh.Formats[round%len(vh.Formats)]
		opts := vh.Opts{"Canonical": true, "CheckCircularRef": true}
		h := vh.NewHandle(format, opts)
		abortKind := []string{"cycle", "marshaler", "both"}[round/len(vh.Formats)%3]
		type gstate struct {
			nodes []*psNode
			armed *bool
			val   map[psKey]int
		}
		gs := make([]*gstate, ng)
		nk := 2 + r.Intn(4)
		for g := range gs {
			s := &gstate{armed: new(bool), val: map[psKey]int{}}
			for i := 0; i < nk; i++ {
				a := &psNode{ID: g*100 + i}
				b := &psNode{ID: g*100 + i + 50, Next: nil}
				a.Next = b
				s.nodes = append(s.nodes, a)
				if abortKind != "cycle" {
					a.Fl = &psFlaky{Armed: s.armed, V: g*10 + i}
				}
				s.val[psKey{N: i, P: a}] = g*1000 + i
			}
			gs[g] = s
		}
		// expected: each value, acyclic and disarmed, encoded alone on a FRESH Handle
		want := make([][]byte, ng)
		wantErr := make([]bool, ng)
		for g, s := range gs {
			wantErr[g] = codec.NewEncoderBytes(&want[g], vh.NewHandle(format, opts)).Encode(s.val) != nil
		}
		cj := map[string]interface{}{"format": format, "opts": opts.String(), "goroutines": ng, "keys": nk, "abort": abortKind, "seed_index": round}
		// phase 1: operations that abort inside a side encoder (the key is being encoded out of band)
		aborted := 0
		for _, s := range gs {
			if abortKind != "marshaler" {
				for _, a := range s.nodes {
					a.Next.Next = a // a -> b -> a
				}
			}
			if abortKind != "cycle" {
				*s.armed = true
			}
		}
		var wg sync.WaitGroup
		var mu sync.Mutex
		for g := range gs {
			wg.Add(1)
			go func(g int) {
				defer wg.Done()
				defer func() { recover() }()
				var out []byte
				if err := codec.NewEncoderBytes(&out, h).Encode(gs[g].val); err != nil {
					mu.Lock()
					aborted++
					mu.Unlock()
				}
			}(g)
		}
		wg.Wait()
		for _, s := range gs {
			for _, a := range s.nodes {
				a.Next.Next = nil
			}
			*s.armed = false
		}
		// phase 2: the same pointers, acyclic, on the same Handle, from several goroutines
		type bad struct {
			g        int
			got      []byte
			err, pan string
		}
		var bads []bad
		start := make(chan struct{})
		for g := range gs {
			wg.Add(1)
			go func(g int) {
				defer wg.Done()
				<-start
				for iter := 0; iter < 4; iter++ {
					var b *bad
					func() {
						defer func() {
							if x := recover(); x != nil {
								b = &bad{g: g, pan: fmt.Sprint(x)}
							}
						}()
						var out []byte
						err := codec.NewEncoderBytes(&out, h).Encode(gs[g].val)
						if (err != nil) != wantErr[g] || (err == nil && !bytes.Equal(out, want[g])) {
							b = &bad{g: g, got: out, err: fmt.Sprint(err)}
						}
					}()
					if b != nil {
						mu.Lock()
						bads = append(bads, *b)
						mu.Unlock()
						return
					}
					runtime.Gosched()
				}
			}(g)
		}
		done := make(chan struct{})
		go func() { wg.Wait(); close(done) }()
		close(start)
		select {
		case <-done:
		case <-time.After(time.Duration(watchdog) * time.Second):
			sum.FailC("poolstate", "deadlock:"+format, "goroutines encoding canonical maps on one Handle did not finish before the watchdog", cj)
			return
		}
		cj["aborted_ops"] = aborted
		if len(bads) > 0 {
			b := bads[0]
			cj["wrong_goroutines"] = len(bads)
			cj["goroutine"] = b.g
			cj["got"], cj["want"], cj["err"], cj["panic"] = vh.Hex(b.got), vh.Hex(want[b.g]), b.err, b.pan
			sum.FailC("poolstate", "poolstate:"+format+":"+abortKind, "after an operation aborted inside a pooled side encoder, a later Encode on the same Handle differs from the same Encode alone on a fresh Handle", cj)
		}
		key := fmt.Sprintf("poolstate/%s/%s", format, abortKind)
		if aborted == 0 {
			key = ""
		}
		sum.Count("poolstate."+format, key)
		sum.Dist["poolstate.aborted_ops"] += aborted
		if round == 0 {
			sum.Sample(cj)
		}
	}
}

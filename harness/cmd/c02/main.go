// Command c02 — C02 "decoding arbitrary bytes is total: error or value, never a crash or hang", API level.
//
// Every Decode runs in a worker subprocess (address-space limit, 64 MB stack cap) under the
// parent's watchdog; a worker that dies or stalls identifies the input it was decoding.
//
// Streams, per format x destination type x decode option vector x transport ([]byte, io.Reader
// buffered / unbuffered / one byte per Read):
//
//	valid     type-directed documents written with hand-made heads (every head width, indefinite forms)
//	hugelen   ONE head of such a document replaced by a head claiming 2^31, 2^32-1, 2^63-1, 2^63,
//	          2^64-1, ... elements / bytes, in every length position (strings, byte strings, arrays,
//	          maps, extensions; top level, nested, map key / value, struct field)
//	offbyone  one length +-1
//	trunc     the document cut at every offset (short ones) / random offsets
//	flip      one byte replaced (descriptor or payload)
//	head      a lone hostile head (every kind x width x claimed length; binc symbol definitions; lengths that wrap a
//	          cursor backwards by 1..24 bytes inside a container claiming 2^64-1 values) into every destination
//	long      containers holding more real elements than the pre-sizing cap max(1024, MaxInitLen), honest or
//	          hostile claimed length, into fast-path and reflection slice / map destinations (zero-size element types too)
//	bigscalar one string of 2..6 MB with its honest length, over []byte and every io.Reader transport
//	chunks    cbor: indefinite-length strings of 32000..100000 small chunks, ValidateUnicode on and off
//	tagrun    cbor: 6 million consecutive tags before a value (skipped tags, nested tags 2..5)
//	depth     the exact MaxDepth boundary (MaxDepth-1 levels decode, MaxDepth levels are an error) for MaxDepth 1..300, and
//	          10^6 levels under MaxDepth = 32767 (the int16 counter must not wrap)
//	symbols   binc: a symbol definition of 1..64 KiB (1- / 2-byte id) followed by up to 300000 references, into
//	          []string / []interface{} / [][]byte / map keys: allocation must stay linear in the input
//	rand      random bytes, 0..64 long
//	prefix    EVERY 1- and 2-byte input
//	arrays    stream arrays / maps holding 0, 1, 2, N, 1000 elements more than the fixed-size Go array [N]T they are decoded
//	          into, the array surrounded by sentinel fields (arrays.go: deterministic, memory-safety oracle)
//
// Oracle per Decode: it returns (value or error); no panic escapes; the process survives; bytes
// allocated (/gc/heap/allocs:bytes delta) <= K0 + K1*len(input) with K0, K1 derived from the code's
// caps (hx.AllocBound); wall time <= K2 + K3*len(input); 0 <= NumBytesRead <= len(input); a
// successful Decode of non-empty input consumed at least one byte.
// interface{} / Raw cases of cbor, msgpack, simple, binc over []byte are also written as Coq cases
// (outcome class + NumBytesRead against the wire models).
package main

import (
	"bufio"
	"bytes"
	"encoding/hex"
	"encoding/json"
	"flag"
	"fmt"
	"io"
	"math"
	"os"
	"os/exec"
	"reflect"
	"runtime"
	"runtime/debug"
	"runtime/metrics"
	"sort"
	"strings"
	"sync"
	"syscall"
	"time"

	"github.com/ugorji/go/codec"
	"verifharness/cmd/c14/hx"
	"verifharness/vh"
)

const coqHeader = `From Coq Require Import List NArith ZArith Bool.
From Verif Require Import C14.Corr C02.Corr.
Import ListNotations.
Open Scope N_scope.
`

type Job struct {
	F    int     `json:"f"`
	D    int     `json:"d"`
	O    hx.Opts `json:"o"`
	X    string  `json:"x,omitempty"` // input, hex (followed by XR copies of the unit XU (hex) and by XS, for long inputs)
	XR   int     `json:"xr,omitempty"`
	XU   string  `json:"xu,omitempty"`
	XS   string  `json:"xs,omitempty"`
	Want int     `json:"w,omitempty"`   // 0: any outcome; 1: must decode without error; 2: must be an error
	Stk  int     `json:"stk,omitempty"` // stack cap in MB for this job (default 64)
	NV   int     `json:"nv,omitempty"`  // number of values in the input when known by construction (0: unknown)
	Kind string  `json:"k"`
	Ex   int     `json:"e"`            // -1: single input; 0..255: every input that starts with this byte and is 1 or 2 bytes long
	Ar   *ArSpec `json:"ar,omitempty"` // stream "arrays" (arrays.go): the document and its destination are built from this
}

type Bad struct {
	X   string `json:"x"`
	Why string `json:"why"`
	Val uint64 `json:"val"`
	Lim uint64 `json:"lim"`
	Det string `json:"det,omitempty"`
}

type Result struct {
	Cls      int         `json:"c"`
	Nread    int         `json:"n"`
	Alloc    uint64      `json:"a"`
	Ns       int64       `json:"t"`
	Bad      []Bad       `json:"bad,omitempty"`
	Hist     map[int]int `json:"h,omitempty"`
	MaxAlloc uint64      `json:"ma,omitempty"`
	MaxNs    int64       `json:"mt,omitempty"`
	Obs      string      `json:"obs,omitempty"` // blocks: "cls/nread" of every input, for the model
}

func (j Job) input() []byte {
	in, _ := hex.DecodeString(j.X)
	if j.XR > 0 {
		u, _ := hex.DecodeString(j.XU)
		in = append(in, bytes.Repeat(u, j.XR)...)
		suf, _ := hex.DecodeString(j.XS)
		in = append(in, suf...)
	}
	return in
}

func (j Job) inputLen() int { return len(j.X)/2 + j.XR*(len(j.XU)/2) + len(j.XS)/2 }

// ---------------- worker ----------------

var allocSample = []metrics.Sample{{Name: "/gc/heap/allocs:bytes"}}

func heapAllocs() uint64 {
	metrics.Read(allocSample)
	return allocSample[0].Value.Uint64()
}

const (
	timeK2 = 400 * time.Millisecond
	timeK3 = 5 * time.Microsecond // per input byte
)

func decodeOnce(f hx.Fmt, o hx.Opts, h codec.Handle, t reflect.Type, in []byte) (cls, nread int, alloc uint64, dur time.Duration, esc bool) {
	defer func() {
		if r := recover(); r != nil {
			esc = true
			cls = 11
		}
	}()
	dst, done := hx.MakeDest(t)
	defer done()
	a0 := heapAllocs()
	t0 := time.Now()
	d := hx.NewDecoder(f, o, h, in)
	err := d.Decode(dst)
	dur = time.Since(t0)
	alloc = heapAllocs() - a0
	return codec.VerifErrClass(err), d.NumBytesRead(), alloc, dur, false
}

func judgeOne(f hx.Fmt, o hx.Opts, st hx.TypeStats, t reflect.Type, h func() codec.Handle, in []byte, nv int, res *Result) (cls, nread int) {
	cls, nread, alloc, dur, esc := decodeOnce(f, o, h(), t, in)
	lim := hx.AllocBoundN(st, o, len(in), nv)
	tl := timeK2 + timeK3*time.Duration(len(in))
	if alloc > (64<<20) && alloc <= lim {
		tl += time.Duration(alloc/(1<<20)) * 2 * time.Millisecond // zeroing what the caps permit
	}
	bad := func(why string, v, l uint64) {
		if len(res.Bad) < 8 {
			res.Bad = append(res.Bad, Bad{X: hex.EncodeToString(in), Why: why, Val: v, Lim: l})
		}
	}
	if esc {
		bad("panic-escaped", 0, 0)
	}
	if alloc > lim {
		bad("alloc", alloc, lim)
	}
	if dur > tl {
		// scheduling / GC noise: measure again, keep the smaller
		_, _, _, d2, _ := decodeOnce(f, o, h(), t, in)
		if d2 < dur {
			dur = d2
		}
		if dur > tl {
			bad("time", uint64(dur), uint64(tl))
		}
	}
	if nread < 0 || nread > len(in) {
		bad("nread-range", uint64(int64(nread)), uint64(len(in)))
	}
	if cls == 0 && nread == 0 && !o.IO {
		bad("ok-without-progress", 0, 0)
	}
	if alloc > res.MaxAlloc {
		res.MaxAlloc = alloc
	}
	if int64(dur) > res.MaxNs {
		res.MaxNs = int64(dur)
	}
	res.Alloc, res.Ns = alloc, int64(dur)
	return cls, nread
}

func workerMain(path string, from int) {
	debug.SetMaxStack(64 << 20)
	// address-space limit: an allocation the caps do not bound kills this process, not the machine
	lim := uint64(6 << 30)
	syscall.Setrlimit(syscall.RLIMIT_AS, &syscall.Rlimit{Cur: lim, Max: lim})
	fh, err := os.Open(path)
	if err != nil {
		os.Exit(3)
	}
	rd := bufio.NewReaderSize(fh, 1<<20)
	out := bufio.NewWriter(os.Stdout)
	stats := map[reflect.Type]hx.TypeStats{}
	for idx := 0; ; idx++ {
		line, err := rd.ReadBytes('\n')
		if len(line) == 0 && err != nil {
			break
		}
		if idx < from {
			continue
		}
		var j Job
		if json.Unmarshal(line, &j) != nil {
			os.Exit(3)
		}
		fmt.Fprintf(out, "B %d\n", idx)
		out.Flush()
		f := hx.Fmt(j.F)
		t := hx.Dests[j.D].T
		st, ok := stats[t]
		if !ok {
			st = hx.StatsOf(t)
			stats[t] = st
		}
		var res Result
		if j.Stk > 0 {
			debug.SetMaxStack(j.Stk << 20)
		} else {
			debug.SetMaxStack(64 << 20)
		}
		if j.Ar != nil {
			arRun(f, *j.Ar, &res)
		} else if j.Ex < 0 {
			in := j.input()
			res.Cls, res.Nread = judgeOne(f, j.O, st, t, func() codec.Handle { return hx.Handle(f, j.O) }, in, j.NV, &res)
		} else {
			h := hx.Handle(f, j.O)
			res.Hist = map[int]int{}
			var obs strings.Builder
			run := func(in []byte) {
				c, n := judgeOne(f, j.O, st, t, func() codec.Handle { return h }, in, 0, &res)
				res.Hist[c]++
				fmt.Fprintf(&obs, "%d/%d ", c, n)
			}
			run([]byte{byte(j.Ex)})
			for b1 := 0; b1 < 256; b1++ {
				run([]byte{byte(j.Ex), byte(b1)})
			}
			res.Obs = strings.TrimSpace(obs.String())
		}
		b, _ := json.Marshal(res)
		fmt.Fprintf(out, "R %d %s\n", idx, b)
		out.Flush()
		if idx%64 == 0 {
			runtime.GC()
		}
	}
	out.Flush()
}

// ---------------- parent ----------------

type ctx struct {
	r    *vh.Rng
	sum  *vh.Summary
	cv   *vh.Cases
	jobs []Job
	nmod int
	maxm int
}

func (c *ctx) add(f hx.Fmt, d int, o hx.Opts, in []byte, kind string) {
	c.jobs = append(c.jobs, Job{F: int(f), D: d, O: o, X: hex.EncodeToString(in), Kind: kind, Ex: -1})
}

func randOpts(r *vh.Rng, f hx.Fmt) hx.Opts {
	o := hx.Opts{}
	o.MaxInitLen = r.PickInt(0, 0, 0, 1, 16, 4096, 70000, -1, math.MinInt)
	o.MaxDepth = r.PickInt(0, 0, 0, 3, 16)
	o.ZeroCopy = r.Chance(1, 4)
	o.Signed = r.Chance(1, 4)
	o.RawToString = r.Chance(1, 4)
	o.ValidateUnicode = r.Chance(1, 4)
	o.SkipTags = f == hx.Cbor && r.Chance(1, 3)
	o.WriteExt = f == hx.Msgpack && r.Chance(1, 2)
	o.SliceType = r.PickInt(0, 0, 0, 1, 2)
	o.MapType = r.PickInt(0, 0, 0, 1, 2)
	o.Ext = r.PickInt(0, 0, 1)
	switch r.Intn(6) {
	case 0:
		o.IO, o.RBS, o.Chunk = true, 0, r.PickInt(1, 3, 0)
	case 1:
		o.IO, o.RBS, o.Chunk = true, r.PickInt(16, 64, 4096), r.PickInt(0, 1, 5)
	}
	return o
}

func hostileLens(f hx.Fmt) []uint64 {
	if f == hx.Msgpack {
		return []uint64{1 << 16, 1<<31 - 1, 1 << 31, 1<<32 - 1, 1<<32 - 2, 1 << 24}
	}
	return []uint64{1 << 31, 1<<32 - 1, 1 << 32, 1<<63 - 1, 1 << 63, math.MaxUint64, 0xffffffff80000000, 1 << 40, 1 << 24, 1<<63 + 1, math.MaxUint64 - 7}
}

func kindName(k int) string {
	return map[int]string{hx.NStr: "str", hx.NBin: "bin", hx.NArr: "arr", hx.NMap: "map", hx.NExt: "ext", hx.NTag: "tag"}[k]
}

func structured(c *ctx, docs int) {
	jsonJunk := []byte(`[]{}",:\u0e-+.1tfn `)
	for _, f := range hx.All {
		for di, d := range hx.Dests {
			for k := 0; k < docs; k++ {
				o := randOpts(c.r, f)
				doc := hx.Emit(f, hx.GenFor(c.r, f, d.T, 3))
				c.add(f, di, o, doc.B, "valid")
				// one hostile length per head
				idx := c.r.Intn(len(doc.Heads) + 1)
				for n := 0; n < len(doc.Heads) && n < 6; n++ {
					hi := (idx + n) % len(doc.Heads)
					h := doc.Heads[hi]
					if f == hx.Json {
						break
					}
					lens := hostileLens(f)
					for q := 0; q < 3; q++ {
						l := lens[c.r.Intn(len(lens))]
						c.add(f, di, o, doc.WithHead(hi, hx.HeadBytes(f, h.Kind, l, 8, h.Tag)), "hugelen:"+kindName(h.Kind))
					}
					if c.r.Chance(1, 2) {
						c.add(f, di, o, doc.WithHead(hi, hx.HeadBytes(f, h.Kind, h.N+1, 0, h.Tag)), "offbyone:"+kindName(h.Kind))
						if h.N > 0 {
							c.add(f, di, o, doc.WithHead(hi, hx.HeadBytes(f, h.Kind, h.N-1, 0, h.Tag)), "offbyone:"+kindName(h.Kind))
						}
					}
				}
				// truncation
				if len(doc.B) <= 12 {
					for n := 0; n < len(doc.B); n++ {
						c.add(f, di, o, doc.B[:n], "trunc")
					}
				} else {
					for q := 0; q < 10; q++ {
						c.add(f, di, o, doc.B[:c.r.Intn(len(doc.B))], "trunc")
					}
				}
				// one byte replaced
				for q := 0; q < 10 && len(doc.B) > 0; q++ {
					b := append([]byte{}, doc.B...)
					p := c.r.Intn(len(b))
					if len(doc.Heads) > 0 && c.r.Chance(1, 2) {
						p = doc.Heads[c.r.Intn(len(doc.Heads))].Off
					}
					if f == hx.Json {
						b[p] = jsonJunk[c.r.Intn(len(jsonJunk))]
					} else {
						b[p] = byte(c.r.U64())
					}
					c.add(f, di, o, b, "flip")
				}
			}
		}
	}
}

// destFor picks a destination for a lone head of the given kind: half of the time one whose type
// takes that kind of value (so that the typed container / string paths see the hostile length), else any
func destFor(c *ctx, kind int) int {
	if c.r.Chance(1, 2) {
		return c.r.Intn(len(hx.Dests))
	}
	var cands []int
	for i, d := range hx.Dests {
		k := d.T.Kind()
		switch kind {
		case hx.NMap:
			if k == reflect.Map || k == reflect.Struct {
				cands = append(cands, i)
			}
		case hx.NArr:
			if k == reflect.Slice || k == reflect.Array {
				cands = append(cands, i)
			}
		default:
			if k == reflect.String || (k == reflect.Slice && d.T.Elem().Kind() == reflect.Uint8) || k == reflect.Interface {
				cands = append(cands, i)
			}
		}
	}
	return cands[c.r.Intn(len(cands))]
}

func loneHeads(c *ctx, perHead int) {
	for _, f := range hx.All {
		if f == hx.Json {
			// json has no length fields: unterminated / oversized tokens instead
			toks := []string{`"`, `"\`, `"\u`, `"\ud800`, `[`, `{`, `{"a"`, `{"a":`, `[1,`, `-`, `1e`, `1e999999999999`, `0.` + strings.Repeat("0", 400) + `1`,
				strings.Repeat("9", 400), `tru`, `nul`, `"` + strings.Repeat("a", 3000), strings.Repeat("[", 3000), strings.Repeat(`{"a":`, 1500),
				"\xff\xfe", `"\uZZZZ"`, `[1 2]`, `{1:2}`, `{"a" 1}`, "\x00", " ", "", `"abc` + "\x01" + `"`, `1` + strings.Repeat(" ", 2000)}
			for _, s := range toks {
				for q := 0; q < perHead*2; q++ {
					c.add(f, c.r.Intn(len(hx.Dests)), randOpts(c.r, f), []byte(s), "head:json-token")
				}
			}
			continue
		}
		for _, kind := range []int{hx.NStr, hx.NBin, hx.NArr, hx.NMap, hx.NExt} {
			for _, w := range []int{1, 2, 4, 8} {
				lens := append(hostileLens(f), 0, 1, 255, 65535, 1<<16+1)
				for _, l := range lens {
					hb := hx.HeadBytes(f, kind, l, w, 7)
					for q := 0; q < perHead; q++ {
						in := hb
						switch c.r.Intn(4) {
						case 1:
							in = append(append([]byte{}, hb...), c.r.Bytes(1+c.r.Intn(8))...)
						case 2: // inside an array
							in = append(hx.HeadBytes(f, hx.NArr, 2, 0, 0), hb...)
						case 3: // as the value of a map entry / struct field "A"
							in = append(hx.MapStr(f, []string{"A", "C", "X", "zz"}[c.r.Intn(4)]), hb...)
						}
						di := destFor(c, kind)
						c.add(f, di, randOpts(c.r, f), in, "head:"+kindName(kind))
					}
				}
			}
		}
		if f == hx.Cbor || f == hx.Simple || f == hx.Binc {
			// lengths that would wrap a cursor backwards by a few bytes (c + n mod 2^64 = c - j): a container claiming
			// 2^64-1 values whose first value is a byte string claiming 2^64-j bytes, on the walker paths (Raw, unknown
			// struct field) and into interface{}: a reader that adds before it checks walks the same bytes for ever
			_, dr := hx.DestByName("Raw")
			_, ds := hx.DestByName("SkipDst")
			_, di := hx.DestByName("iface")
			for j := uint64(1); j <= 24; j++ {
				for _, outer := range []int{hx.NArr, hx.NMap} {
					if outer == hx.NMap && j%3 != 0 {
						continue
					}
					in := append(hx.HeadBytes(f, outer, math.MaxUint64, 8, 0), hx.HeadBytes(f, hx.NBin, math.MaxUint64-j+1, 8, 0)...)
					in = append(in, c.r.Bytes(c.r.Intn(4))...)
					o := hx.Opts{}
					if c.r.Chance(1, 3) {
						o.IO, o.RBS = true, c.r.PickInt(0, 64)
					}
					c.add(f, dr, o, in, "head:wrap")
					c.add(f, ds, o, append(hx.MapStr(f, "zz"), in...), "head:wrap")
					if j%4 == 0 {
						c.add(f, di, o, in, "head:wrap")
					}
				}
			}
		}
		if f == hx.Binc {
			// symbol definitions (bd = 0xb0 | wide-id 8 | definition 4 | length width code) claiming a hostile length:
			// the length of a symbol's text has its own decoder (not decLen), in every width
			for _, wb := range []byte{0, 8} {
				for lw := 0; lw < 4; lw++ {
					for _, l := range append(hostileLens(f), 0, 1, 300, 1<<63|c.r.U64()>>1, 1<<63|c.r.U64()>>2, 1<<63|c.r.U64()>>32) {
						for q := 0; q < perHead; q++ {
							in := []byte{0xb0 | wb | 4 | byte(lw), byte(1 + c.r.Intn(200))}
							if wb != 0 {
								in = append(in, byte(c.r.Intn(256)))
							}
							for k := (1 << uint(lw)) - 1; k >= 0; k-- {
								in = append(in, byte(l>>(8*uint(k))))
							}
							in = append(in, c.r.Bytes(c.r.Intn(12))...)
							switch c.r.Intn(3) {
							case 1:
								in = append(hx.HeadBytes(f, hx.NArr, 2, 0, 0), in...)
							case 2:
								in = append(hx.HeadBytes(f, hx.NMap, 1, 0, 0), in...)
							}
							// over every transport: bytes, unbuffered io.Reader, buffered io.Reader
							di := destFor(c, hx.NStr)
							for tr := 0; tr < 3; tr++ {
								o := randOpts(c.r, f)
								o.IO, o.RBS, o.Chunk = tr > 0, 0, 0
								if tr == 2 {
									o.RBS, o.Chunk = c.r.PickInt(16, 64, 4096), c.r.PickInt(0, 1, 5)
								}
								c.add(f, di, o, in, "head:binc-symbol")
							}
						}
					}
				}
			}
		}
		if f == hx.Cbor {
			// indefinite forms without an end, chunks of the wrong type, reserved additional information
			for _, s := range [][]byte{{0x5f}, {0x7f}, {0x9f}, {0xbf}, {0x5f, 0x61, 0x61}, {0x7f, 0x41, 0x00, 0xff}, {0x9f, 0xff}, {0xbf, 0x01, 0xff},
				{0x1c}, {0x1f}, {0x3f}, {0xdf}, {0xff}, {0xf8}, {0xf8, 0x00}, {0xfc}, {0xc2, 0x5b, 0xff, 0xff, 0xff, 0xff, 0xff, 0xff, 0xff, 0xff},
				{0xc0, 0x7b, 0x7f, 0xff, 0xff, 0xff, 0xff, 0xff, 0xff, 0xff}, {0xc1, 0xfb}, {0xd9, 0xd9, 0xf7},
				{0x5f, 0x40, 0xff}, {0x7f, 0x60, 0x60, 0xff}, {0x5f, 0x40, 0x41, 0x00, 0x40, 0xff}, {0x9f, 0x5f, 0x40, 0xff, 0xff}} {
				for q := 0; q < perHead*3; q++ {
					c.add(f, c.r.Intn(len(hx.Dests)), randOpts(c.r, f), s, "head:cbor-special")
				}
				// and on the walker paths: Raw, and the value of an unknown struct field
				_, dr := hx.DestByName("Raw")
				_, ds := hx.DestByName("SkipDst")
				c.add(f, dr, randOpts(c.r, f), s, "head:cbor-special")
				c.add(f, ds, randOpts(c.r, f), append(hx.MapStr(f, "zz"), s...), "head:cbor-special")
			}
		}
	}
}

func randomBytes(c *ctx, n int) {
	for _, f := range hx.All {
		for i := 0; i < n; i++ {
			l := c.r.Intn(65)
			if c.r.Chance(1, 3) {
				l = c.r.Intn(6)
			}
			c.add(f, c.r.Intn(len(hx.Dests)), randOpts(c.r, f), c.r.Bytes(l), "rand")
		}
	}
}

// long: containers with more real elements than the pre-sizing cap max(1024, MaxInitLen), with an
// honest or a hostile claimed length, into slice / map destinations (fast-path and reflection ones)
func longStream(c *ctx, n int) {
	names := []string{"[]S2", "[][]int", "[]struct{}", "[]iface", "[]int", "[]string", "[][]byte", "[]bool", "[]map[struct{}]struct{}", "[][0]int", "iface", "Raw", "map[int]string", "map[iface]iface",
		"chan int", "chan int/recv", "chan []byte"}
	for _, f := range hx.All {
		for _, name := range names {
			d, di := hx.DestByName(name)
			for q := 0; q < n; q++ {
				cnt := c.r.PickInt(1030, 1100, 1500, 2500, 5000)
				o := randOpts(c.r, f)
				o.MaxInitLen = c.r.PickInt(0, 0, 1, 16, -1, 1200)
				isMap := d.T.Kind() == reflect.Map
				var elem *hx.Node
				switch {
				case isMap:
				case d.T.Kind() == reflect.Slice || d.T.Kind() == reflect.Chan:
					elem = hx.GenFor(c.r, f, d.T.Elem(), 0)
				default:
					elem = hx.U(1)
				}
				node := &hx.Node{K: hx.NArr, W: 4}
				if isMap {
					node.K = hx.NMap
					for i := 0; i < cnt; i++ {
						node.Kids = append(node.Kids, hx.U(uint64(i)), hx.U(1))
					}
				} else {
					for i := 0; i < cnt; i++ {
						node.Kids = append(node.Kids, elem)
					}
				}
				doc := hx.Emit(f, node)
				c.add(f, di, o, doc.B, "long:honest")
				if f == hx.Json || len(doc.Heads) == 0 {
					continue
				}
				lens := hostileLens(f)
				for k := 0; k < 2; k++ {
					l := lens[c.r.Intn(len(lens))]
					c.add(f, di, o, doc.WithHead(0, hx.HeadBytes(f, node.K, l, 8, 0)), "long:hugelen")
				}
			}
		}
	}
}

// bigscalar: one string / byte string of several MB with its honest length, over every transport
func bigScalar(c *ctx, n int) {
	for _, f := range hx.All {
		for _, name := range []string{"string", "[]byte", "iface", "Raw", "SkipDst", "S1"} {
			_, di := hx.DestByName(name)
			for q := 0; q < n; q++ {
				size := c.r.PickInt(2<<20, 3<<20+17, 6<<20)
				kind := hx.NStr
				if c.r.Chance(1, 3) {
					kind = hx.NBin
				}
				var pre, suf []byte
				if f == hx.Json {
					pre, suf = []byte{'"'}, []byte{'"'}
				} else {
					pre = hx.HeadBytes(f, kind, uint64(size), 0, 0)
				}
				if name == "SkipDst" || name == "S1" {
					key := "zz"
					if name == "S1" {
						key = "B"
					}
					pre = append(hx.MapStr(f, key), pre...)
					suf = append(suf, hx.CloseMap(f)...)
				}
				o := hx.Opts{WriteExt: true, MaxInitLen: c.r.PickInt(0, 0, 16, -1)}
				switch c.r.Intn(4) {
				case 0:
				case 1:
					o.IO, o.RBS, o.Chunk = true, 0, 0
				case 2:
					o.IO, o.RBS, o.Chunk = true, 0, c.r.PickInt(1000, 4096)
				case 3:
					o.IO, o.RBS, o.Chunk = true, 4096, 0
				}
				c.jobs = append(c.jobs, Job{F: int(f), D: di, O: o, X: hex.EncodeToString(pre), XR: size, XU: "61", XS: hex.EncodeToString(suf), Kind: "bigscalar", Ex: -1, NV: 3})
			}
		}
	}
}

// symbols: binc symbol definitions (1..64 KiB, 1- and 2-byte ids) followed by many references to them, into
// destinations that keep every element: a reference costs 2-3 bytes on the wire, so the decoder may not copy
// the symbol once per reference (allocation quadratic in the input length)
func symbolStream(c *ctx, n int) {
	f := hx.Binc
	for _, name := range []string{"[]string", "[]iface", "map[string]int-keys", "[][]byte"} {
		for q := 0; q < n; q++ {
			for _, L := range []int{1 << 10, 8 << 10, 64 << 10} {
				wide := c.r.Chance(1, 2) // 2-byte symbol id
				id := 1 + c.r.Intn(200)
				if wide {
					id = 256 + c.r.Intn(60000)
				}
				// definition: bd = 0xb0 | (wide ? 8 : 0) | 4 | length width code; id; length; bytes
				lw, lb := byte(1), []byte{byte(L >> 8), byte(L)}
				if L > 65535 {
					lw, lb = 2, []byte{byte(L >> 24), byte(L >> 16), byte(L >> 8), byte(L)}
				}
				idb := []byte{byte(id)}
				wb := byte(0)
				if wide {
					idb, wb = []byte{byte(id >> 8), byte(id)}, 8
				}
				def := append(append([]byte{0xb0 | wb | 4 | lw}, idb...), lb...)
				def = append(def, bytes.Repeat([]byte{'s'}, L)...)
				ref := append([]byte{0xb0 | wb}, idb...)
				// enough references for symbolLen * refs to exceed the bound several times if each is copied
				R := (600 << 20) / L
				if R > 300000 {
					R = 300000
				}
				dn := name
				var pre []byte
				unit := ref
				nv := R + 1
				if name == "map[string]int-keys" {
					// a map whose keys are the references: {sym: 1, sym: 1, ...}
					dn = "map[string]int"
					pre = hx.HeadBytes(f, hx.NMap, uint64(R+1), 8, 0)
					pre = append(append(pre, def...), hx.One(f)...)
					unit = append(append([]byte{}, ref...), hx.One(f)...)
					nv = 2*R + 2
				} else {
					pre = append(hx.HeadBytes(f, hx.NArr, uint64(R+1), 8, 0), def...)
				}
				_, di := hx.DestByName(dn)
				o := hx.Opts{MaxInitLen: c.r.PickInt(0, 0, 16, -1)}
				switch c.r.Intn(3) {
				case 1:
					o.IO, o.RBS = true, 0
				case 2:
					o.IO, o.RBS = true, 4096
				}
				c.jobs = append(c.jobs, Job{F: int(f), D: di, O: o, X: hex.EncodeToString(pre), XR: R, XU: hex.EncodeToString(unit), Kind: "symbols", Ex: -1, NV: nv})
			}
		}
	}
}

// chunks: cbor indefinite-length text / byte strings made of very many small chunks (time must stay linear in the
// input whatever ValidateUnicode says), over both transports, decoded and skipped
func chunkStream(c *ctx, n int) {
	f := hx.Cbor
	for _, name := range []string{"string", "iface", "[]byte", "Raw", "SkipDst", "S1"} {
		_, di := hx.DestByName(name)
		for q := 0; q < n; q++ {
			for _, vu := range []bool{true, false} {
				chunks := c.r.PickInt(32000, 100000)
				pre, unit := []byte{0x7f}, []byte{0x62, 0xc3, 0xa9} // text chunk "é"
				switch c.r.Intn(3) {
				case 1:
					unit = []byte{0x63, 'a', 'b', 'c'}
				case 2:
					if name == "[]byte" || name == "iface" || name == "Raw" {
						pre, unit = []byte{0x5f}, []byte{0x41, 0x00}
					}
				}
				suf := []byte{0xff}
				if name == "SkipDst" || name == "S1" {
					key := "zz"
					if name == "S1" {
						key = "B"
					}
					pre = append(hx.MapStr(f, key), pre...)
				}
				o := hx.Opts{ValidateUnicode: vu}
				switch c.r.Intn(3) {
				case 1:
					o.IO, o.RBS = true, 0
				case 2:
					o.IO, o.RBS = true, 4096
				}
				c.jobs = append(c.jobs, Job{F: int(f), D: di, O: o, X: hex.EncodeToString(pre), XR: chunks, XU: hex.EncodeToString(unit), XS: hex.EncodeToString(suf), Kind: "chunks", Ex: -1})
			}
		}
	}
}

// tagrun: cbor: millions of consecutive tags in front of one value (no container is entered, MaxDepth does not
// apply): skipped tags (55799; any unregistered tag under SkipUnexpectedTags) must be looped over, and the
// content of tags 2..5 is read as the NEXT item, not by re-entering the tag decoder (F02-5)
func tagRun(c *ctx, n int) {
	f := hx.Cbor
	type pat struct {
		pre, unit, suf string
		st             bool
	}
	pats := []pat{
		{"", "d9d9f7", "07", false},
		{"", "c6", "07", true},
		{"", "d9d9f7c6", "07", true},
		{"c482c4", "82", "", false}, // decimal fraction whose exponent is a decimal fraction whose ... (F02-5)
		{"c582c5", "82", "", false},
		{"", "c482", "0102", false},
		{"", "c48200", "01", false}, // ... whose MANTISSA is a decimal fraction whose ...
		{"", "c58200", "01", false},
		{"", "c2", "4105", false},
	}
	for q := 0; q < n; q++ {
		for _, p := range pats {
			for _, name := range []string{"iface", "float64", "[]iface", "Raw"} {
				_, di := hx.DestByName(name)
				pre, _ := hex.DecodeString(p.pre)
				if name == "[]iface" {
					pre = append(hx.Arr1(f), pre...)
				}
				o := hx.Opts{SkipTags: p.st}
				if c.r.Chance(1, 3) {
					o.IO, o.RBS = true, 4096
				}
				cnt := 6000000 * 3 / (len(p.unit) / 2) / 3
				c.jobs = append(c.jobs, Job{F: int(f), D: di, O: o, X: hex.EncodeToString(pre), XR: cnt, XU: p.unit, XS: p.suf, Kind: "tagrun", Ex: -1})
			}
		}
	}
}

// depth: the exact MaxDepth boundary (nesting of MaxDepth - 1 levels decodes, of MaxDepth levels and more is an error:
// what depthIncr does) for small MaxDepth, and MaxDepth = math.MaxInt16, where the int16 counter must not wrap
func depthStream(c *ctx) {
	for _, f := range hx.All {
		for _, md := range []int{1, 2, 3, 16, 300} {
			for lv := md - 1; lv <= md+1; lv++ {
				if lv < 1 {
					continue
				}
				for _, name := range []string{"iface", "[]iface", "T", "Raw"} {
					if name == "Raw" && f == hx.Json {
						continue // json's skip scanner is iterative and does not count depth
					}
					_, di := hx.DestByName(name)
					var in []byte
					levels := lv
					switch name {
					case "T": // {"P": {"P": ... {} }}: lv struct levels
						for i := 0; i < lv-1; i++ {
							in = append(in, hx.MapStr(f, "P")...)
						}
						in = append(in, hx.MapStr(f, "zz")...)
						in = append(in, hx.One(f)...)
						for i := 0; i < lv; i++ {
							in = append(in, hx.CloseMap(f)...)
						}
					default:
						in = append(bytes.Repeat(hx.Arr1(f), lv), hx.One(f)...)
						in = append(in, bytes.Repeat(hx.CloseArr(f), lv)...)
					}
					for tr := 0; tr < 2; tr++ {
						o := hx.Opts{MaxDepth: md, WriteExt: true, IO: tr == 1, RBS: 64 * tr}
						want := 1
						if levels >= md {
							want = 2
						}
						c.jobs = append(c.jobs, Job{F: int(f), D: di, O: o, X: hex.EncodeToString(in), Kind: "depth", Ex: -1, Want: want})
					}
				}
			}
		}
		for _, name := range []string{"iface", "T"} {
			_, di := hx.DestByName(name)
			unit := hx.Arr1(f)
			if name == "T" {
				unit = hx.MapStr(f, "P")
			}
			c.jobs = append(c.jobs, Job{F: int(f), D: di, O: hx.Opts{MaxDepth: 32767, WriteExt: true}, XR: 1000000, XU: hex.EncodeToString(unit),
				XS: hex.EncodeToString(hx.One(f)), Kind: "depth", Ex: -1, Want: 2, Stk: 400})
		}
	}
}

var prefixDests = []string{"iface", "S1", "[]byte", "Raw", "map[string]iface", "[]int", "string", "S3-toarray", "[]iface", "time", "[4]int", "RawExt"}

func prefixes(c *ctx, ndest int) {
	for _, f := range hx.All {
		for k := 0; k < ndest && k < len(prefixDests); k++ {
			_, di := hx.DestByName(prefixDests[k])
			o := hx.Opts{WriteExt: true}
			if k >= 2 { // the first two destinations run with plain options (model cases), the rest with random ones
				o = randOpts(c.r, f)
			}
			for b0 := 0; b0 < 256; b0++ {
				c.jobs = append(c.jobs, Job{F: int(f), D: di, O: o, Kind: "prefix", Ex: b0})
			}
		}
	}
}

// modelKind: 1 Decode(&interface{}), 2 Decode(&Raw); 0: outside the wire models
func modelKind(j Job) int {
	o := j.O
	if j.Ar != nil || hx.Fmt(j.F) == hx.Json || o.IO || o.Ext != 0 || o.SliceType != 0 || o.MapType != 0 || o.ValidateUnicode {
		return 0
	}
	switch hx.Dests[j.D].Name {
	case "iface":
		return 1
	case "Raw":
		return 2
	}
	return 0
}

func coqOpts(o hx.Opts) string {
	return fmt.Sprintf("(mkopts %s %s %s %s %s)", vh.CoqZ(int64(o.MaxDepth)), vh.CoqBool(o.Signed), vh.CoqBool(o.RawToString), vh.CoqBool(o.SkipTags), vh.CoqBool(o.WriteExt))
}

func (c *ctx) modelCase(j Job, in []byte, cls, nread int) {
	k := modelKind(j)
	if k == 0 || len(in) > 300 || c.nmod >= c.maxm {
		return
	}
	c.nmod++
	c.cv.Add(fmt.Sprintf("mkc2 %d %d %d %s %s %d %d", c.nmod, j.F, k, coqOpts(j.O), vh.CoqBytes(in), cls, nread))
	c.sum.ModelCases++
}

type workerState struct {
	cmd   *exec.Cmd
	lines chan string
}

func startWorker(path string, from int) (*workerState, error) {
	cmd := exec.Command(os.Args[0], "-worker", path, "-from", fmt.Sprint(from))
	stdout, err := cmd.StdoutPipe()
	if err != nil {
		return nil, err
	}
	cmd.Stderr = nil
	if err := cmd.Start(); err != nil {
		return nil, err
	}
	ws := &workerState{cmd: cmd, lines: make(chan string, 256)}
	go func() {
		rd := bufio.NewReaderSize(stdout, 1<<20)
		for {
			l, err := rd.ReadString('\n')
			if l != "" {
				ws.lines <- strings.TrimRight(l, "\n")
			}
			if err != nil {
				break
			}
		}
		close(ws.lines)
	}()
	return ws, nil
}

type outcome struct {
	res   *Result
	fatal string // "", "fatal", "hang"
}

// runShard runs jobs[lo:hi) (already written to path) in a worker, restarting it after every death / hang.
func runShard(path string, jobs []Job, out []outcome) {
	from := 0
	for from < len(jobs) {
		ws, err := startWorker(path, from)
		if err != nil {
			for i := from; i < len(jobs); i++ {
				out[i].fatal = "harness:cannot-start-worker"
			}
			return
		}
		cur := -1
		deadline := func(i int) time.Duration {
			d := 20*time.Second + time.Duration(jobs[i].inputLen())*200*time.Microsecond
			if jobs[i].Ex >= 0 {
				d += 60 * time.Second
			}
			return d
		}
		timer := time.NewTimer(30 * time.Second)
		dead := false
		for !dead {
			select {
			case l, ok := <-ws.lines:
				if !ok {
					dead = true
					break
				}
				var idx int
				if strings.HasPrefix(l, "B ") {
					fmt.Sscanf(l, "B %d", &idx)
					cur = idx
					if !timer.Stop() {
						select {
						case <-timer.C:
						default:
						}
					}
					timer.Reset(deadline(idx))
				} else if strings.HasPrefix(l, "R ") {
					sp := strings.SplitN(l, " ", 3)
					fmt.Sscanf(sp[1], "%d", &idx)
					var r Result
					if len(sp) == 3 && json.Unmarshal([]byte(sp[2]), &r) == nil {
						out[idx].res = &r
					}
					cur = -1
					from = idx + 1
				}
			case <-timer.C:
				ws.cmd.Process.Kill()
				if cur >= 0 {
					out[cur].fatal = "hang"
					from = cur + 1
				} else {
					from = len(jobs)
				}
				go func() {
					for range ws.lines {
					}
				}()
				dead = true
				cur = -2
			}
		}
		ws.cmd.Wait()
		if cur >= 0 { // died while decoding job cur
			out[cur].fatal = "fatal"
			from = cur + 1
		} else if cur == -1 && from < len(jobs) {
			// exited between jobs: normal end is from == len(jobs); otherwise restart where it stopped
			if ws.cmd.ProcessState != nil && ws.cmd.ProcessState.Success() {
				from = len(jobs)
			}
		}
	}
}

// leafStream ties the hand-transcribed decInferLen / usableByteSlice of C02/Alloc.v to the code.
func leafStream(c *ctx) {
	sg := func(v int64) (uint64, uint64) {
		if v < 0 {
			return 1, uint64(-v)
		}
		return 0, uint64(v)
	}
	clens := []int64{0, 1, 7, 8, 9, 63, 64, 65, 1023, 1024, 1025, 4096, 65536, 1 << 20, 1<<20 + 1, 1 << 31, 1<<32 - 1, 1<<62 + 5, math.MaxInt64,
		-1, -2, -2147483648, -2147483647, -2147483649, math.MinInt64 + 1}
	maxlens := []uint64{0, 1, 8, 1024, 1025, 4096, 70000, 1 << 31}
	units := []uint64{0, 1, 2, 7, 8, 9, 16, 24, 48, 63, 64, 65, 300, 1 << 20, 1<<20 + 1}
	for _, cl := range clens {
		for _, ml := range maxlens {
			for _, u := range units {
				if c.r.Intn(3) != 0 {
					continue
				}
				got := codec.VerifC02DecInferLen(int(cl), uint(ml), uint(u))
				s, v := sg(cl)
				c.nmod++
				c.cv.Add(fmt.Sprintf("mkc2 %d 0 9 (mkopts 0%%Z false false false false) [%d; %d; %d; %d]%%N %d 0", c.nmod, s, v, ml, u, got))
				c.sum.ModelCases++
				c.sum.Count("leaf.decInferLen", fmt.Sprintf("leaf/inferlen/%d/%d/%d", cl, ml, u))
			}
		}
	}
	for _, bc := range []int{0, 8, 64, 1024} {
		for _, sl := range []int64{0, -1, -5, 1, 8, 9, 64, 65, 1024, 1025, 1 << 20, 64<<20 - 1, 64 << 20, 64<<20 + 1} { // larger claims only in the workers: an uncapped make would kill this process
			n, isNew := codec.VerifC02UsableByteSliceLen(bc, int(sl))
			s, v := sg(sl)
			c.nmod++
			c.cv.Add(fmt.Sprintf("mkc2 %d 0 10 (mkopts 0%%Z false false false false) [%d; %d; %d]%%N %d %d", c.nmod, bc, s, v, n, b2i(isNew)))
			c.sum.ModelCases++
			c.sum.Count("leaf.usableByteSlice", fmt.Sprintf("leaf/usable/%d/%d", bc, sl))
		}
	}
}

func b2i(b bool) int {
	if b {
		return 1
	}
	return 0
}

func main() {
	docs := flag.Int("docs", 2, "documents per (format, destination) in the structured stream")
	perHead := flag.Int("heads", 1, "lone hostile heads per (format, kind, width, length)")
	nRand := flag.Int("rand", 1500, "random inputs per format")
	nPrefix := flag.Int("prefix", 3, "destinations for the exhaustive 1- and 2-byte prefix stream (0: skip)")
	nLong := flag.Int("long", 1, "long-container documents per (format, destination)")
	nBig := flag.Int("big", 1, "multi-MB scalars per (format, destination)")
	nSym := flag.Int("symbols", 1, "binc symbol definition + references documents per (destination, symbol length)")
	nChunk := flag.Int("chunks", 1, "cbor many-chunk indefinite strings per (destination, ValidateUnicode)")
	nTag := flag.Int("tagrun", 1, "cbor runs of millions of tags per (pattern, destination)")
	nArrays := flag.Int("arrays", 1, "stream arrays longer than the Go array, with sentinel fields (0: skip)")
	workers := flag.Int("workers", 8, "worker subprocesses")
	maxModel := flag.Int("model", 1500, "model cases at most")
	worker := flag.String("worker", "", "(internal) job file")
	from := flag.Int("from", 0, "(internal) first job")
	cases := flag.String("cases", "cases_c02", "directory for the model case files")
	flag.Parse()
	if *worker != "" {
		workerMain(*worker, *from)
		return
	}
	r := vh.NewRng(vh.SeedFromEnv())
	sum := vh.NewSummary("distinct (format, destination, stream/mutation class, transport, outcome class) tuples; trivial = valid documents that decode without error. " +
		"prefix: all 65792 inputs of 1 and 2 bytes per (format, destination)")
	c := &ctx{r: r, sum: sum, maxm: *maxModel}
	c.cv = vh.NewCases(*cases, coqHeader, "case2", "mismatches2", 60)
	structured(c, *docs)
	loneHeads(c, *perHead)
	randomBytes(c, *nRand)
	longStream(c, *nLong)
	bigScalar(c, *nBig)
	symbolStream(c, *nSym)
	chunkStream(c, *nChunk)
	tagRun(c, *nTag)
	depthStream(c)
	// shuffle the single jobs so that shards are balanced, keep the blocks at the end spread round-robin
	for i := len(c.jobs) - 1; i > 0; i-- {
		k := c.r.Intn(i + 1)
		c.jobs[i], c.jobs[k] = c.jobs[k], c.jobs[i]
	}
	prefixes(c, *nPrefix)
	if *nArrays > 0 {
		arrayStream(c) // after the shuffle and without a random choice: the other streams are what they were
	}

	dir := *cases + "_jobs"
	os.RemoveAll(dir)
	os.MkdirAll(dir, 0o755)
	w := *workers
	shards := make([][]Job, w)
	index := make([][]int, w)
	for i, j := range c.jobs {
		shards[i%w] = append(shards[i%w], j)
		index[i%w] = append(index[i%w], i)
	}
	outs := make([]outcome, len(c.jobs))
	var wg sync.WaitGroup
	for s := 0; s < w; s++ {
		path := fmt.Sprintf("%s/jobs_%02d.jsonl", dir, s)
		fh, _ := os.Create(path)
		bw := bufio.NewWriter(fh)
		for _, j := range shards[s] {
			b, _ := json.Marshal(j)
			bw.Write(b)
			bw.WriteByte('\n')
		}
		bw.Flush()
		fh.Close()
		wg.Add(1)
		go func(s int, path string) {
			defer wg.Done()
			so := make([]outcome, len(shards[s]))
			runShard(path, shards[s], so)
			for k, o := range so {
				outs[index[s][k]] = o
			}
		}(s, path)
	}
	wg.Wait()

	// blocks in which a worker died: pinpoint the input
	var retry []Job
	for i, j := range c.jobs {
		if j.Ex >= 0 && outs[i].fatal != "" {
			retry = append(retry, Job{F: j.F, D: j.D, O: j.O, X: hex.EncodeToString([]byte{byte(j.Ex)}), Kind: "prefix", Ex: -1})
			for b1 := 0; b1 < 256; b1++ {
				retry = append(retry, Job{F: j.F, D: j.D, O: j.O, X: hex.EncodeToString([]byte{byte(j.Ex), byte(b1)}), Kind: "prefix", Ex: -1})
			}
			outs[i].fatal = ""
			outs[i].res = &Result{}
		}
	}
	if len(retry) > 0 {
		path := dir + "/retry.jsonl"
		fh, _ := os.Create(path)
		for _, j := range retry {
			b, _ := json.Marshal(j)
			fh.Write(append(b, '\n'))
		}
		fh.Close()
		ro := make([]outcome, len(retry))
		runShard(path, retry, ro)
		c.jobs = append(c.jobs, retry...)
		outs = append(outs, ro...)
	}

	var maxAllocRatio float64
	var maxNs int64
	for i, j := range c.jobs {
		f := hx.Fmt(j.F)
		d := hx.Dests[j.D]
		o := outs[i]
		tr := "bytes"
		if j.O.IO {
			tr = fmt.Sprintf("io%d", j.O.RBS)
		}
		if j.Ar != nil {
			d = hx.Dest{Name: j.Ar.Name(), T: d.T}
		}
		cid := fmt.Sprintf("%s:%s:%s", f, d.Name, j.Kind)
		cj := map[string]interface{}{"format": f.String(), "dest": d.Name, "opts": j.O.String(), "kind": j.Kind, "input": j.X}
		if j.Ar != nil {
			cj["opts"] = "default options / ErrorIfNoArrayExpand, over []byte, unbuffered and buffered io.Reader"
			cj["form"] = []string{"definite lengths", "cbor indefinite lengths"}[j.Ar.Form]
			if o.fatal != "" || o.res == nil || len(o.res.Bad) > 0 { // the document is rebuilt from the spec
				in := hex.EncodeToString(arBuild(f, *j.Ar).in)
				if len(in) > 400 {
					cj["input_len"] = len(in) / 2
					in = in[:400] + "..."
				}
				cj["input"] = in
			}
		}
		if j.Ex >= 0 {
			cj["input"] = fmt.Sprintf("every 1- and 2-byte input starting with %02x", j.Ex)
		}
		if len(j.X) > 400 {
			cj["input"] = j.X[:400] + "..."
			cj["input_len"] = len(j.X) / 2
		}
		if j.XR > 0 {
			cj["input"] = fmt.Sprintf("%s + %d x %s + %s", j.X, j.XR, j.XU, j.XS)
			if len(j.X) > 80 {
				cj["input"] = fmt.Sprintf("%s...(%d bytes) + %d x %s + %s", j.X[:80], len(j.X)/2, j.XR, j.XU, j.XS)
			}
			cj["input_len"] = j.inputLen()
		}
		switch {
		case o.fatal == "hang":
			sum.FailC(j.Kind, "hang:"+cid, "Decode did not return within the deadline (20 s + 0.2 ms per input byte)", cj)
		case o.fatal == "fatal":
			sum.FailC(j.Kind, "fatal:"+cid, "the process was killed by the runtime while decoding (fatal error: stack exhaustion, out of memory, ...)", cj)
		case o.fatal != "" || o.res == nil:
			sum.FailC(j.Kind, "harness:"+cid, "no result from the worker", cj)
		default:
			res := o.res
			for _, b := range res.Bad {
				cb := map[string]interface{}{}
				for k, v := range cj {
					cb[k] = v
				}
				cb["input"] = b.X
				cb["measured"] = b.Val
				cb["limit"] = b.Lim
				what := map[string]string{
					"panic-escaped":       "a panic escaped Decode",
					"alloc":               "bytes allocated by Decode exceed K0 + K1*len(input)",
					"time":                "Decode took longer than K2 + K3*len(input)",
					"nread-range":         "NumBytesRead outside 0..len(input)",
					"ok-without-progress": "Decode returned no error without consuming a byte",
				}[b.Why]
				if w, ok := arWhat[b.Why]; ok {
					what = w
				}
				if b.Det != "" {
					cb["detail"] = b.Det
				}
				sum.FailC(j.Kind, b.Why+":"+cid, what, cb)
			}
			if j.Want == 1 && res.Cls != 0 {
				sum.FailC(j.Kind, "refused-below-maxdepth:"+cid, "input nested less than MaxDepth levels was refused", cj)
			}
			if j.Want == 2 && res.Cls == 0 {
				sum.FailC(j.Kind, "accepted-at-maxdepth:"+cid, "input nested MaxDepth levels or more decoded without error", cj)
			}
			if j.Ex < 0 {
				in := j.input()
				key := ""
				if !(j.Kind == "valid" && res.Cls == 0) && !(j.Ar != nil && !j.Ar.arExcess()) { // arrays: a document that fits is a control
					key = fmt.Sprintf("%s/%s/c%d", cid, tr, res.Cls)
				}
				sum.Count(j.Kind+"."+f.String(), key)
				c.modelCase(j, in, res.Cls, res.Nread)
				if ratio := float64(res.Alloc) / float64(hx.AllocBoundN(hx.StatsOf(d.T), j.O, len(in), j.NV)); ratio > maxAllocRatio {
					maxAllocRatio = ratio
				}
				if res.Ns > maxNs {
					maxNs = res.Ns
				}
			} else {
				n := 0
				var ks []int
				for k, v := range res.Hist {
					n += v
					ks = append(ks, k)
				}
				sort.Ints(ks)
				for q := 0; q < n; q++ {
					key := ""
					if q < len(ks) {
						key = fmt.Sprintf("%s/%02x/c%d", cid, j.Ex, ks[q])
					}
					sum.Count("prefix."+f.String(), key)
				}
				// a sample of the block as model cases
				if modelKind(j) != 0 && res.Obs != "" {
					obs := strings.Fields(res.Obs)
					for q := 0; q < 3; q++ {
						k := c.r.Intn(len(obs))
						var cls, nr int
						fmt.Sscanf(obs[k], "%d/%d", &cls, &nr)
						in := []byte{byte(j.Ex)}
						if k > 0 {
							in = append(in, byte(k-1))
						}
						c.modelCase(j, in, cls, nr)
					}
				}
				if res.MaxNs > maxNs {
					maxNs = res.MaxNs
				}
			}
			if i%997 == 0 {
				sum.Sample(cj)
			}
		}
	}
	leafStream(c)
	c.cv.Close()
	sum.Extra = map[string]interface{}{"c02_max_alloc_over_bound": maxAllocRatio, "c02_max_decode_ns": maxNs, "c02_jobs": len(c.jobs)}
	sum.Print()
	_ = io.EOF
}

// arrays: a stream array (or map) that holds MORE elements than the fixed-size Go array it is decoded into.
//
// What the decoder must do with the elements that do not fit is fixed by the documentation of
// DecodeOptions.ErrorIfNoArrayExpand: they are skipped (or, with the option, Decode returns an error).
// The reflection path (kArray) stores elements through an unchecked pointer addition, so the only
// thing between a hostile stream and a write outside the array is the loop's own index guard.
// The oracle is therefore a memory-safety one, decided on the decoded destination itself:
//
//   - every destination has SENTINEL fields laid out around the array (the field right behind it has the
//     array's element type, so that it is adjacent whatever the alignment; then scalar, pointer, string
//     and []byte fields): a field the stream never mentions keeps the value (and, for a pointer, the
//     address) it had before Decode;
//   - the array holds the first N elements of the stream, a field the stream sets after the array holds
//     what the stream says;
//   - Decode returns without error and consumed the whole document (with ErrorIfNoArrayExpand: an error);
//   - the process survives (the job runs in a worker, a fatal fault is attributed to it).
//
// The stream is deterministic (no random choice): element type x N x excess x context x format x
// array form (definite, cbor indefinite, map in the stream) x transport.
package main

import (
	"encoding/hex"
	"fmt"
	"math"
	"reflect"
	"sort"
	"strings"
	"time"

	"github.com/ugorji/go/codec"
	"verifharness/cmd/c14/hx"
)

// ArSpec identifies one destination shape and document.
type ArSpec struct {
	E    int `json:"e"`           // element kind (arKinds)
	N    int `json:"n"`           // length of the Go array
	X    int `json:"x"`           // elements of the stream array beyond N
	C    int `json:"c"`           // context (arCtxNames)
	Form int `json:"f,omitempty"` // 0 definite lengths; 1 cbor indefinite lengths
}

type (
	arNU uint
	arNS struct{ A, B uint }
	arNA [2]uint16
)

type arKind struct {
	name   string
	t      reflect.Type
	scalar bool                           // usable as a map key in the stream (map form)
	node   func(f hx.Fmt, i int) *hx.Node // the i-th value as written in the stream
	val    func(i int) reflect.Value      // the i-th value as it must be decoded (type t)
}

const arSentinel = 20000 // value indices >= arSentinel are never in a stream (stream indices stay below 2000*5+1010)

func arU64(i int) uint64 { return 0x5a5a5a5a5a5a0000 | uint64(i) }

func arTime(i int) time.Time { return time.Unix(1700000000+int64(i), 0).UTC() }

var arTimeCache = map[[2]int][]byte{}

func arTimeNode(f hx.Fmt, i int) *hx.Node {
	k := [2]int{int(f), i}
	b, ok := arTimeCache[k]
	if !ok {
		b = hx.EncScalar(f, arTime(i))
		arTimeCache[k] = b
	}
	return hx.Lit(b)
}

func arStructNode(i int) *hx.Node {
	return hx.Map(hx.S("A"), hx.U(arU64(i)), hx.S("B"), hx.U(arU64(i)+0x10000))
}

func rvOf(v interface{}) reflect.Value { return reflect.ValueOf(v) }

func uintKind(name string, zero interface{}, base uint64, scalar bool) arKind {
	t := reflect.TypeOf(zero)
	return arKind{name, t, scalar,
		func(f hx.Fmt, i int) *hx.Node { return hx.U(base + uint64(i)) },
		func(i int) reflect.Value {
			v := reflect.New(t).Elem()
			v.SetUint(base + uint64(i))
			return v
		}}
}

var arKinds = []arKind{
	uintKind("uint", uint(0), 0x5a5a5a5a5a5a0000, true),
	uintKind("uintptr", uintptr(0), 0x5a5a5a5a5a5a0000, true),
	uintKind("uint16", uint16(0), 0x1000, true),
	uintKind("uint32", uint32(0), 0x5a5a0000, true),
	{"int16", reflect.TypeOf(int16(0)), true,
		func(f hx.Fmt, i int) *hx.Node { return &hx.Node{K: hx.NNeg, U: uint64(0x2a00 + i)} },
		func(i int) reflect.Value { return rvOf(int16(-1 - (0x2a00 + i))) }},
	{"float32", reflect.TypeOf(float32(0)), true,
		func(f hx.Fmt, i int) *hx.Node { return &hx.Node{K: hx.NF64, U: math.Float64bits(1.5 + float64(i))} },
		func(i int) reflect.Value { return rvOf(float32(1.5 + float64(i))) }},
	{"bool", reflect.TypeOf(false), true,
		func(f hx.Fmt, i int) *hx.Node { return &hx.Node{K: hx.NBool, U: 1} },
		func(i int) reflect.Value { return rvOf(i < arSentinel) }},
	{"*uint64", reflect.TypeOf((*uint64)(nil)), true,
		func(f hx.Fmt, i int) *hx.Node { return hx.U(arU64(i)) },
		func(i int) reflect.Value { p := new(uint64); *p = arU64(i); return rvOf(p) }},
	{"struct{A,B uint}", reflect.TypeOf(struct{ A, B uint }{}), false,
		func(f hx.Fmt, i int) *hx.Node { return arStructNode(i) },
		func(i int) reflect.Value { return rvOf(struct{ A, B uint }{uint(arU64(i)), uint(arU64(i) + 0x10000)}) }},
	{"time.Time", reflect.TypeOf(time.Time{}), false,
		arTimeNode,
		func(i int) reflect.Value { return rvOf(arTime(i)) }},
	// a nested array, itself fed one element too many
	{"[2]uint", reflect.TypeOf([2]uint{}), false,
		func(f hx.Fmt, i int) *hx.Node {
			return hx.Arr(hx.U(arU64(i)), hx.U(arU64(i)+0x10000), hx.U(arU64(i)+0x20000))
		},
		func(i int) reflect.Value { return rvOf([2]uint{uint(arU64(i)), uint(arU64(i) + 0x10000)}) }},
	uintKind("named uint", arNU(0), 0x5a5a5a5a5a5a0000, true),
	{"named struct", reflect.TypeOf(arNS{}), false,
		func(f hx.Fmt, i int) *hx.Node { return arStructNode(i) },
		func(i int) reflect.Value { return rvOf(arNS{uint(arU64(i)), uint(arU64(i) + 0x10000)}) }},
	{"named [2]uint16", reflect.TypeOf(arNA{}), false,
		func(f hx.Fmt, i int) *hx.Node {
			return hx.Arr(hx.U(uint64(3*i+1)), hx.U(uint64(3*i+2)), hx.U(uint64(3*i+3)))
		},
		func(i int) reflect.Value { return rvOf(arNA{uint16(3*i + 1), uint16(3*i + 2)}) }},
	{"*struct{A,B uint}", reflect.TypeOf((*arNS)(nil)), false,
		func(f hx.Fmt, i int) *hx.Node { return arStructNode(i) },
		func(i int) reflect.Value { return rvOf(&arNS{uint(arU64(i)), uint(arU64(i) + 0x10000)}) }},
	// never 0: a stray write must be visible over a zero sentinel
	{"uint8", reflect.TypeOf(uint8(0)), true,
		func(f hx.Fmt, i int) *hx.Node { return hx.U(uint64(i%251 + 1)) },
		func(i int) reflect.Value { return rvOf(uint8(i%251 + 1)) }},
	// element types with a generated (bounds-checked) fast-path, as controls
	uintKind("uint64", uint64(0), 0x5a5a5a5a5a5a0000, true),
	{"string", reflect.TypeOf(""), true,
		func(f hx.Fmt, i int) *hx.Node { return hx.S(fmt.Sprintf("s%d", i)) },
		func(i int) reflect.Value { return rvOf(fmt.Sprintf("s%d", i)) }},
	{"int", reflect.TypeOf(int(0)), true,
		func(f hx.Fmt, i int) *hx.Node { return hx.U(uint64(0x1a5a5a5a5a5a0000 | i)) },
		func(i int) reflect.Value { return rvOf(int(0x1a5a5a5a5a5a0000 | i)) }},
}

var arCtxNames = []string{"field", "field+ptr", "bare", "slice-elem", "slice-elem-preset", "slice-of-arrays", "map-value", "array-of-arrays", "field/stream-map"}

const (
	arField = iota
	arFieldPtr
	arBare
	arSliceElem
	arSliceElemPreset
	arSliceOfArrays
	arMapValue
	arArrayOfArrays
	arFieldMap
)

func (s ArSpec) Name() string {
	return fmt.Sprintf("%s/[%d]%s+%d", arCtxNames[s.C], s.N, arKinds[s.E].name, s.X)
}

func sf(name string, t reflect.Type) reflect.StructField {
	return reflect.StructField{Name: name, Type: t}
}

var (
	tU64   = reflect.TypeOf(uint64(0))
	tPU64  = reflect.TypeOf((*uint64)(nil))
	tStr   = reflect.TypeOf("")
	tBytes = reflect.TypeOf([]byte(nil))
	tTime  = reflect.TypeOf(time.Time{})
)

// canon renders a decoded value: floats by bit pattern, times by instant, pointers by what they point to.
func canon(sb *strings.Builder, v reflect.Value) {
	switch v.Kind() {
	case reflect.Ptr:
		if v.IsNil() {
			sb.WriteString("nil")
			return
		}
		sb.WriteByte('&')
		canon(sb, v.Elem())
	case reflect.Struct:
		if v.Type() == tTime {
			t := v.Interface().(time.Time)
			fmt.Fprintf(sb, "T%d.%d", t.Unix(), t.Nanosecond())
			return
		}
		sb.WriteByte('{')
		for i := 0; i < v.NumField(); i++ {
			sb.WriteString(v.Type().Field(i).Name)
			sb.WriteByte(':')
			canon(sb, v.Field(i))
			sb.WriteByte(' ')
		}
		sb.WriteByte('}')
	case reflect.Array, reflect.Slice:
		if v.Kind() == reflect.Slice && v.IsNil() {
			sb.WriteString("nilslice")
			return
		}
		sb.WriteByte('[')
		for i := 0; i < v.Len(); i++ {
			canon(sb, v.Index(i))
			sb.WriteByte(' ')
		}
		sb.WriteByte(']')
	case reflect.Map:
		if v.IsNil() {
			sb.WriteString("nilmap")
			return
		}
		var ks []string
		m := map[string]reflect.Value{}
		for _, k := range v.MapKeys() {
			s := fmt.Sprint(k.Interface())
			ks = append(ks, s)
			m[s] = v.MapIndex(k)
		}
		sort.Strings(ks)
		sb.WriteString("map[")
		for _, k := range ks {
			sb.WriteString(k)
			sb.WriteByte(':')
			canon(sb, m[k])
			sb.WriteByte(' ')
		}
		sb.WriteByte(']')
	case reflect.Float32, reflect.Float64:
		fmt.Fprintf(sb, "f%x", math.Float64bits(v.Float()))
	case reflect.Bool:
		fmt.Fprintf(sb, "%v", v.Bool())
	case reflect.String:
		fmt.Fprintf(sb, "%q", v.String())
	case reflect.Int, reflect.Int8, reflect.Int16, reflect.Int32, reflect.Int64:
		fmt.Fprintf(sb, "%d", v.Int())
	case reflect.Uint, reflect.Uint8, reflect.Uint16, reflect.Uint32, reflect.Uint64, reflect.Uintptr:
		fmt.Fprintf(sb, "%#x", v.Uint())
	case reflect.Interface:
		if v.IsNil() {
			sb.WriteString("nil")
			return
		}
		canon(sb, v.Elem())
	default:
		fmt.Fprintf(sb, "?%s", v.Kind())
	}
}

func canonS(v reflect.Value) string {
	var sb strings.Builder
	canon(&sb, v)
	return sb.String()
}

// arDoc is one document with the destination it goes into.
type arDoc struct {
	in []byte
	// mk builds a fresh destination; check judges it after Decode: ("", "") or (class, detail)
	mk func() (dst interface{}, check func() (string, string))
}

// streamArr: the stream container for Go array number k of the document, n elements
func (s ArSpec) streamArr(f hx.Fmt, k, n int) *hx.Node {
	kd := arKinds[s.E]
	if s.C == arFieldMap {
		nd := &hx.Node{K: hx.NMap, Indef: s.Form == 1}
		for i := 0; i < n+n%2; i++ { // a map delivers an even number of values
			nd.Kids = append(nd.Kids, kd.node(f, k*2000+i))
		}
		return nd
	}
	nd := &hx.Node{K: hx.NArr, Indef: s.Form == 1}
	for i := 0; i < n; i++ {
		nd.Kids = append(nd.Kids, kd.node(f, k*2000+i))
	}
	return nd
}

// wantArr: what Go array number k must hold
func (s ArSpec) wantArr(k int) reflect.Value {
	kd := arKinds[s.E]
	a := reflect.New(reflect.ArrayOf(s.N, kd.t)).Elem()
	for i := 0; i < s.N; i++ {
		a.Index(i).Set(kd.val(k*2000 + i))
	}
	return a
}

// fieldwise compares got with want (same struct type) field by field: pointer fields the stream does not
// set must keep their ADDRESS (and are only then followed); returns the first differing field.
func structDiff(got, want reflect.Value, streamSet map[string]bool) (field string, detail string) {
	t := got.Type()
	// addresses first: a clobbered pointer must not be followed
	for i := 0; i < t.NumField(); i++ {
		n := t.Field(i).Name
		if t.Field(i).Type.Kind() == reflect.Ptr && !streamSet[n] && t.Field(i).Type == tPU64 {
			if got.Field(i).Pointer() != want.Field(i).Pointer() {
				return n, fmt.Sprintf("pointer field %s holds address %#x", n, got.Field(i).Pointer())
			}
		}
	}
	for i := 0; i < t.NumField(); i++ {
		n := t.Field(i).Name
		g, w := canonS(got.Field(i)), canonS(want.Field(i))
		if g != w {
			if len(g) > 160 {
				g = g[:160] + "..."
			}
			if len(w) > 160 {
				w = w[:160] + "..."
			}
			return n, fmt.Sprintf("field %s = %s, expected %s", n, g, w)
		}
	}
	return "", ""
}

func classOf(field string, streamSet map[string]bool) string {
	if streamSet[field] {
		return "ar-value"
	}
	return "ar-sentinel"
}

func arBuild(f hx.Fmt, s ArSpec) arDoc {
	kd := arKinds[s.E]
	at := reflect.ArrayOf(s.N, kd.t)
	cnt := s.N + s.X
	indef := s.Form == 1
	mapNode := func(kv ...*hx.Node) *hx.Node { n := hx.Map(kv...); n.Indef = indef; return n }
	arrNode := func(k ...*hx.Node) *hx.Node { n := hx.Arr(k...); n.Indef = indef; return n }

	// the sentinel-bearing struct around one array
	full := reflect.StructOf([]reflect.StructField{sf("H", tU64), sf("A", at), sf("G", kd.t), sf("S", tU64), sf("P", tPU64), sf("Q", tStr), sf("B", tBytes)})
	preset := func(v reflect.Value, salt int) {
		for i := 0; i < v.NumField(); i++ {
			fv := v.Field(i)
			switch v.Type().Field(i).Name {
			case "H":
				fv.SetUint(0x1111111111110000 | uint64(salt))
			case "G":
				fv.Set(kd.val(arSentinel + salt))
			case "S":
				fv.SetUint(0x2222222222220000 | uint64(salt))
			case "P":
				p := new(uint64)
				*p = 0x3333333333330000 | uint64(salt)
				fv.Set(reflect.ValueOf(p))
			case "Q":
				fv.SetString(fmt.Sprintf("sentinel-%d", salt))
			case "B":
				fv.SetBytes([]byte{0xb0, 0xb1, byte(salt)})
			}
		}
	}
	// copyPreset: want := a copy of got's preset state (pointers shared: the addresses must be kept)
	clone := func(v reflect.Value) reflect.Value {
		w := reflect.New(v.Type()).Elem()
		w.Set(v)
		return w
	}

	switch s.C {
	case arField, arFieldMap, arBare:
		var node *hx.Node
		if s.C == arBare {
			node = s.streamArr(f, 0, cnt)
		} else {
			node = mapNode(hx.S("A"), s.streamArr(f, 0, cnt))
		}
		set := map[string]bool{"A": true}
		return arDoc{hx.Emit(f, node).B, func() (interface{}, func() (string, string)) {
			got := reflect.New(full).Elem()
			preset(got, 1)
			want := clone(got)
			want.FieldByName("A").Set(s.wantArr(0))
			dst := got.Addr().Interface()
			if s.C == arBare {
				dst = got.FieldByName("A").Addr().Interface()
			}
			return dst, func() (string, string) {
				fl, det := structDiff(got, want, set)
				if fl == "" {
					return "", ""
				}
				return classOf(fl, set), det
			}
		}}

	case arFieldPtr:
		// the array is directly followed by a pointer field which the stream sets afterwards
		st := reflect.StructOf([]reflect.StructField{sf("A", at), sf("P", tPU64), sf("G", kd.t), sf("S", tU64)})
		node := mapNode(hx.S("A"), s.streamArr(f, 0, cnt), hx.S("P"), hx.U(7))
		set := map[string]bool{"A": true, "P": true}
		return arDoc{hx.Emit(f, node).B, func() (interface{}, func() (string, string)) {
			got := reflect.New(st).Elem()
			preset(got, 2)
			got.FieldByName("P").Set(reflect.Zero(tPU64))
			want := clone(got)
			want.FieldByName("A").Set(s.wantArr(0))
			seven := uint64(7)
			want.FieldByName("P").Set(reflect.ValueOf(&seven))
			return got.Addr().Interface(), func() (string, string) {
				fl, det := structDiff(got, want, set)
				if fl == "" {
					return "", ""
				}
				return classOf(fl, set), det
			}
		}}

	case arSliceElem, arSliceElemPreset, arMapValue:
		et := reflect.StructOf([]reflect.StructField{sf("H", tU64), sf("A", at), sf("G", kd.t), sf("S", tU64)})
		e0 := mapNode(hx.S("A"), s.streamArr(f, 0, cnt))
		e1 := mapNode(hx.S("A"), s.streamArr(f, 1, cnt))
		set := map[string]bool{"A": true}
		var node *hx.Node
		var ct reflect.Type
		if s.C == arMapValue {
			node = mapNode(hx.S("k0"), e0, hx.S("k1"), e1)
			ct = reflect.MapOf(tStr, et)
		} else {
			node = arrNode(e0, e1)
			ct = reflect.SliceOf(et)
		}
		return arDoc{hx.Emit(f, node).B, func() (interface{}, func() (string, string)) {
			got := reflect.New(ct).Elem()
			wantE := []reflect.Value{reflect.New(et).Elem(), reflect.New(et).Elem()}
			if s.C == arSliceElemPreset {
				// elements that exist before Decode are decoded into: their other fields stay
				got.Set(reflect.MakeSlice(ct, 2, 2))
				for k := 0; k < 2; k++ {
					preset(got.Index(k), 10+k)
					wantE[k].Set(got.Index(k))
				}
			}
			for k := 0; k < 2; k++ {
				wantE[k].FieldByName("A").Set(s.wantArr(k))
			}
			return got.Addr().Interface(), func() (string, string) {
				if got.Len() != 2 {
					return "ar-value", fmt.Sprintf("%d elements decoded, expected 2", got.Len())
				}
				for k := 0; k < 2; k++ {
					var g reflect.Value
					if s.C == arMapValue {
						g = got.MapIndex(reflect.ValueOf(fmt.Sprintf("k%d", k)))
						if !g.IsValid() {
							return "ar-value", fmt.Sprintf("no key k%d", k)
						}
					} else {
						g = got.Index(k)
					}
					if fl, det := structDiff(g, wantE[k], set); fl != "" {
						return classOf(fl, set), fmt.Sprintf("element %d: %s", k, det)
					}
				}
				return "", ""
			}
		}}

	case arSliceOfArrays:
		// [][N]T with len 2 and cap 3: the third array of the backing store is not part of the slice
		node := arrNode(s.streamArr(f, 0, cnt), s.streamArr(f, 1, cnt))
		return arDoc{hx.Emit(f, node).B, func() (interface{}, func() (string, string)) {
			back := reflect.New(reflect.ArrayOf(3, at)).Elem()
			for i := 0; i < s.N; i++ {
				back.Index(2).Index(i).Set(kd.val(arSentinel + i))
			}
			guard := canonS(back.Index(2))
			got := reflect.New(reflect.SliceOf(at)).Elem()
			got.Set(back.Slice3(0, 2, 3))
			want := reflect.MakeSlice(reflect.SliceOf(at), 2, 2)
			want.Index(0).Set(s.wantArr(0))
			want.Index(1).Set(s.wantArr(1))
			ws := canonS(want)
			return got.Addr().Interface(), func() (string, string) {
				if g := canonS(back.Index(2)); g != guard {
					return "ar-sentinel", "the array behind the slice (between len and cap) was written"
				}
				if g := canonS(got); g != ws {
					if len(g) > 200 {
						g = g[:200] + "..."
					}
					return "ar-value", "decoded " + g
				}
				return "", ""
			}
		}}

	case arArrayOfArrays:
		const M = 2
		xo := s.X
		if xo > 3 {
			xo = 3
		}
		aat := reflect.ArrayOf(M, at)
		st := reflect.StructOf([]reflect.StructField{sf("H", tU64), sf("A", aat), sf("G", kd.t), sf("S", tU64), sf("P", tPU64), sf("Q", tStr)})
		outer := arrNode()
		for k := 0; k < M+xo; k++ {
			outer.Kids = append(outer.Kids, s.streamArr(f, k, cnt))
		}
		node := mapNode(hx.S("A"), outer)
		set := map[string]bool{"A": true}
		return arDoc{hx.Emit(f, node).B, func() (interface{}, func() (string, string)) {
			got := reflect.New(st).Elem()
			preset(got, 3)
			want := clone(got)
			for k := 0; k < M; k++ {
				want.FieldByName("A").Index(k).Set(s.wantArr(k))
			}
			return got.Addr().Interface(), func() (string, string) {
				fl, det := structDiff(got, want, set)
				if fl == "" {
					return "", ""
				}
				return classOf(fl, set), det
			}
		}}
	}
	panic("arBuild: context")
}

// arVariants: transports, and the documented error mode
type arVariant struct {
	name  string
	o     hx.Opts
	noExp bool // ErrorIfNoArrayExpand
}

var arVariants = []arVariant{
	{"bytes", hx.Opts{WriteExt: true}, false},
	{"io-unbuffered", hx.Opts{WriteExt: true, IO: true, Chunk: 3}, false},
	{"io-buffered", hx.Opts{WriteExt: true, IO: true, RBS: 64}, false},
	{"bytes/ErrorIfNoArrayExpand", hx.Opts{WriteExt: true}, true},
	{"io-buffered/ErrorIfNoArrayExpand", hx.Opts{WriteExt: true, IO: true, RBS: 64}, true},
}

func setNoExpand(h codec.Handle) {
	switch x := h.(type) {
	case *codec.CborHandle:
		x.ErrorIfNoArrayExpand = true
	case *codec.MsgpackHandle:
		x.ErrorIfNoArrayExpand = true
	case *codec.SimpleHandle:
		x.ErrorIfNoArrayExpand = true
	case *codec.BincHandle:
		x.ErrorIfNoArrayExpand = true
	case *codec.JsonHandle:
		x.ErrorIfNoArrayExpand = true
	}
}

// arExcess: does some stream container of the document hold more than its Go array takes?
func (s ArSpec) arExcess() bool {
	if s.X > 0 {
		return true
	}
	switch arKinds[s.E].name { // element documents that are themselves one element too long
	case "[2]uint", "named [2]uint16":
		return s.N > 0
	}
	return s.C == arFieldMap && s.N%2 == 1
}

func arDecode(f hx.Fmt, v arVariant, in []byte, dst interface{}) (cls, nread int, esc bool) {
	defer func() {
		if r := recover(); r != nil {
			esc, cls = true, 11
		}
	}()
	h := hx.Handle(f, v.o)
	if v.noExp {
		setNoExpand(h)
	}
	d := hx.NewDecoder(f, v.o, h, in)
	err := d.Decode(dst)
	return codec.VerifErrClass(err), d.NumBytesRead(), false
}

// arRun is the worker side of one arrays job.
func arRun(f hx.Fmt, s ArSpec, res *Result) {
	doc := arBuild(f, s)
	bad := func(why, det string) {
		if len(res.Bad) < 4 {
			res.Bad = append(res.Bad, Bad{X: hex.EncodeToString(doc.in), Why: why, Det: det})
		}
	}
	for _, v := range arVariants {
		dst, check := doc.mk()
		cls, nread, esc := arDecode(f, v, doc.in, dst)
		switch {
		case esc:
			bad("panic-escaped", v.name)
		case v.noExp && s.arExcess():
			if cls == 0 {
				bad("ar-noerror", v.name)
			}
			// whatever was decoded before the error: no field but A may have changed
			if why, det := check(); why == "ar-sentinel" {
				bad(why, v.name+": "+det)
			}
			continue
		case cls != 0:
			bad("ar-error", fmt.Sprintf("%s: error class %d", v.name, cls))
			if why, det := check(); why == "ar-sentinel" {
				bad(why, v.name+": "+det)
			}
			continue
		}
		if !esc && !v.o.IO && nread != len(doc.in) {
			bad("ar-nread", fmt.Sprintf("%s: NumBytesRead %d of %d", v.name, nread, len(doc.in)))
		}
		if why, det := check(); why != "" {
			bad(why, v.name+": "+det)
		}
	}
	if len(res.Bad) > 0 {
		res.Cls = 2
	}
}

var arWhat = map[string]string{
	"ar-sentinel": "Decode of a stream container longer than the fixed-size Go array changed memory outside the array (a field the stream never mentions)",
	"ar-value":    "Decode of a stream container longer than the fixed-size Go array did not leave the first N elements in the array (or what the stream sets after it)",
	"ar-error":    "Decode of a stream container longer than the fixed-size Go array returned an error although ErrorIfNoArrayExpand is not set",
	"ar-noerror":  "Decode of a stream container longer than the fixed-size Go array returned no error although ErrorIfNoArrayExpand is set",
	"ar-nread":    "Decode of a stream container longer than the fixed-size Go array did not consume the whole document",
}

// arrayStream appends the jobs (no random choice: the same jobs under every seed).
func arrayStream(c *ctx) {
	for _, f := range hx.All {
		forms := []int{0}
		if f == hx.Cbor {
			forms = []int{0, 1}
		}
		for _, form := range forms {
			for ci := range arCtxNames {
				if ci == arFieldMap && f == hx.Json {
					continue // json map keys are strings
				}
				for e, kd := range arKinds {
					if ci == arFieldMap && !kd.scalar {
						continue
					}
					for _, n := range []int{0, 1, 2, 3, 8} {
						if ci == arSliceOfArrays && n == 0 {
							continue // zero-size elements have no backing store to guard
						}
						seen := map[int]bool{}
						for _, x := range []int{0, 1, 2, n, 1000} {
							if seen[x] {
								continue
							}
							seen[x] = true
							if x == 1000 && !(ci == arField || ci == arFieldPtr || ci == arArrayOfArrays) {
								continue
							}
							sp := ArSpec{E: e, N: n, X: x, C: ci, Form: form}
							c.jobs = append(c.jobs, Job{F: int(f), Ar: &sp, Kind: "arrays", Ex: -1})
						}
					}
				}
			}
		}
	}
}

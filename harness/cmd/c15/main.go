// c15: property oracle and correspondence for C15 ("schema-less decoding is
// faithful: generic trees re-encode to the same data").
//
// Stream "trans": exactly the three-step transcoding on the implementation:
//
//	v : T random (map keys of scalar kinds)
//	  -> Encode_F (random encoder options)
//	  -> Decode into interface{} under a random schema-less option vector
//	     (MapType map[string]interface{} | map[interface{}]interface{}, SliceType,
//	     RawToString, SignedInteger, PreferArrayOverSlice)               = tree g
//	  -> Encode_G (G = F, and G != F where F's tree keeps what T needs)
//	  -> Decode into new(T)  == v up to the documented losses of F then G.
//
// The number leaves of g are compared with math/big to the number leaves of v
// (multisets of exact rationals; NaN / infinities as tokens); strings / bytes as
// multisets of byte strings.
// Stream "model" (cbor, msgpack, simple, binc): type, value, options and the
// tree g (as an item) are written as Coq cases for C15/Corr.v: the model's
// naked_tree (wire norm of Generic to_item) must be that tree.
package main

import (
	"bytes"
	"flag"
	"fmt"
	"math"
	"math/big"
	"reflect"
	"sort"
	"strings"
	"time"

	"verifharness/vh"

	"github.com/ugorji/go/codec"
)

// ---- type classification for the side condition keeps F G T ----

type tinfo struct {
	hasTime, hasBytes, nonStrKey, hasFloatKey, hasStr, hasMapNumKey bool
}

func classify(t reflect.Type, ti *tinfo) {
	if t == vh.TimeType {
		ti.hasTime = true
		return
	}
	switch t.Kind() {
	case reflect.String:
		ti.hasStr = true
	case reflect.Slice, reflect.Array:
		if t.Elem().Kind() == reflect.Uint8 {
			ti.hasBytes = true
			return
		}
		classify(t.Elem(), ti)
	case reflect.Map:
		if t.Key().Kind() != reflect.String {
			ti.nonStrKey = true
		}
		if k := t.Key().Kind(); k == reflect.Float32 || k == reflect.Float64 {
			ti.hasFloatKey = true
		}
		classify(t.Key(), ti)
		classify(t.Elem(), ti)
	case reflect.Ptr:
		classify(t.Elem(), ti)
	case reflect.Struct:
		for i := 0; i < t.NumField(); i++ {
			classify(t.Field(i).Type, ti)
		}
	}
}

// ---- leaves ----

type leaves struct {
	nums    []string
	strs    []string
	bytes   []string // the []byte / [N]byte leaves alone (a subset of strs)
	hasUint bool
}

func ratOfFloat(f float64) string {
	switch {
	case f != f:
		return "NaN"
	case math.IsInf(f, 1):
		return "+Inf"
	case math.IsInf(f, -1):
		return "-Inf"
	}
	r := new(big.Rat)
	r.SetFloat64(f)
	return r.RatString()
}

// leaves of the typed source value (what the encoder is asked to write)
func srcLeaves(v reflect.Value, nc vh.NormCfg, l *leaves, timeAsStr, bytesAsStr bool) {
	t := v.Type()
	if t == vh.TimeType {
		return
	}
	switch t.Kind() {
	case reflect.Int, reflect.Int8, reflect.Int16, reflect.Int32, reflect.Int64:
		l.nums = append(l.nums, big.NewInt(v.Int()).String())
	case reflect.Uint, reflect.Uint8, reflect.Uint16, reflect.Uint32, reflect.Uint64, reflect.Uintptr:
		l.nums = append(l.nums, new(big.Int).SetUint64(v.Uint()).String())
		l.hasUint = true
	case reflect.Float32:
		if bytesAsStr { // json: a float32 is written as the shortest decimal that identifies it AS A float32
			l.nums = append(l.nums, fmt.Sprintf("f32:%08x", math.Float32bits(float32(v.Float()))))
		} else {
			l.nums = append(l.nums, ratOfFloat(v.Float()))
		}
	case reflect.Float64:
		l.nums = append(l.nums, ratOfFloat(v.Float()))
	case reflect.String:
		l.strs = append(l.strs, v.String())
	case reflect.Slice:
		if v.IsNil() {
			if nc.NilToEmpty && t.Elem().Kind() == reflect.Uint8 {
				l.strs = append(l.strs, "")
				l.bytes = append(l.bytes, "")
			}
			return
		}
		if t.Elem().Kind() == reflect.Uint8 {
			l.strs = append(l.strs, string(v.Bytes()))
			l.bytes = append(l.bytes, string(v.Bytes()))
			return
		}
		for i := 0; i < v.Len(); i++ {
			srcLeaves(v.Index(i), nc, l, timeAsStr, bytesAsStr)
		}
	case reflect.Array:
		if t.Elem().Kind() == reflect.Uint8 {
			b := make([]byte, v.Len())
			reflect.Copy(reflect.ValueOf(b), v)
			l.strs = append(l.strs, string(b))
			l.bytes = append(l.bytes, string(b))
			return
		}
		for i := 0; i < v.Len(); i++ {
			srcLeaves(v.Index(i), nc, l, timeAsStr, bytesAsStr)
		}
	case reflect.Map:
		it := v.MapRange()
		for it.Next() {
			if !(timeAsStr && t.Key().Kind() != reflect.String) { // json MapKeyAsString: non-string keys are text in the tree
				srcLeaves(it.Key(), nc, l, timeAsStr, bytesAsStr)
			}
			srcLeaves(it.Value(), nc, l, timeAsStr, bytesAsStr)
		}
	case reflect.Ptr:
		if !v.IsNil() {
			srcLeaves(v.Elem(), nc, l, timeAsStr, bytesAsStr)
		}
	case reflect.Struct:
		for i := 0; i < t.NumField(); i++ {
			if t.Field(i).PkgPath == "" {
				srcLeaves(v.Field(i), nc, l, timeAsStr, bytesAsStr)
			}
		}
	}
}

// leaves of the generic tree; struct field names (map keys of struct-maps) are
// removed by the caller (they are counted on the source side instead)
func treeLeaves(v reflect.Value, l *leaves) {
	if !v.IsValid() {
		return
	}
	t := v.Type()
	if t == vh.TimeType {
		return
	}
	switch t.Kind() {
	case reflect.Interface, reflect.Ptr:
		if !v.IsNil() {
			treeLeaves(v.Elem(), l)
		}
	case reflect.Int64:
		l.nums = append(l.nums, big.NewInt(v.Int()).String())
	case reflect.Uint64:
		l.nums = append(l.nums, new(big.Int).SetUint64(v.Uint()).String())
	case reflect.Float64, reflect.Float32:
		l.nums = append(l.nums, ratOfFloat(v.Float()))
	case reflect.String:
		l.strs = append(l.strs, v.String())
	case reflect.Slice, reflect.Array:
		if t.Elem().Kind() == reflect.Uint8 {
			if t.Kind() == reflect.Slice && v.IsNil() {
				return
			}
			b := make([]byte, v.Len())
			reflect.Copy(reflect.ValueOf(b), v)
			l.strs = append(l.strs, string(b))
			l.bytes = append(l.bytes, string(b))
			return
		}
		for i := 0; i < v.Len(); i++ {
			treeLeaves(v.Index(i), l)
		}
	case reflect.Map:
		it := v.MapRange()
		for it.Next() {
			treeLeaves(it.Key(), l)
			treeLeaves(it.Value(), l)
		}
	}
}

// Go types of the nodes of the tree
func treeKinds(v reflect.Value, m map[string]bool) {
	if !v.IsValid() {
		return
	}
	t := v.Type()
	if t == vh.TimeType {
		return
	}
	switch t.Kind() {
	case reflect.Interface, reflect.Ptr:
		if !v.IsNil() {
			treeKinds(v.Elem(), m)
		}
	case reflect.Slice, reflect.Array:
		if t.Elem().Kind() == reflect.Uint8 {
			m["[]uint8"] = true
			return
		}
		m[t.Kind().String()] = true
		for i := 0; i < v.Len(); i++ {
			treeKinds(v.Index(i), m)
		}
	case reflect.Map:
		m[t.String()] = true
		it := v.MapRange()
		for it.Next() {
			treeKinds(it.Key(), m)
			treeKinds(it.Value(), m)
		}
	default:
		m[t.String()] = true
	}
}

// names of the struct fields the encoder writes as map keys (StructToArray off)
func fieldNames(v reflect.Value, out *[]string) {
	t := v.Type()
	if t == vh.TimeType {
		return
	}
	switch t.Kind() {
	case reflect.Slice, reflect.Array:
		if t.Elem().Kind() == reflect.Uint8 || (t.Kind() == reflect.Slice && v.IsNil()) {
			return
		}
		for i := 0; i < v.Len(); i++ {
			fieldNames(v.Index(i), out)
		}
	case reflect.Map:
		it := v.MapRange()
		for it.Next() {
			fieldNames(it.Value(), out)
		}
	case reflect.Ptr:
		if !v.IsNil() {
			fieldNames(v.Elem(), out)
		}
	case reflect.Struct:
		for i := 0; i < t.NumField(); i++ {
			if t.Field(i).PkgPath == "" {
				*out = append(*out, vh.EncName(t.Field(i)))
				fieldNames(v.Field(i), out)
			}
		}
	}
}

func multisetDiff(a, b []string) string {
	a = append([]string(nil), a...)
	b = append([]string(nil), b...)
	sort.Strings(a)
	sort.Strings(b)
	i, j := 0, 0
	for i < len(a) && j < len(b) {
		if a[i] == b[j] {
			i++
			j++
			continue
		}
		if a[i] < b[j] {
			return "only in value: " + short(a[i])
		}
		return "only in tree: " + short(b[j])
	}
	if i < len(a) {
		return "only in value: " + short(a[i])
	}
	if j < len(b) {
		return "only in tree: " + short(b[j])
	}
	return ""
}

// numsDiff: exact multiset equality; source tokens "f32:<bits>" (json float32 leaves) are matched
// against the remaining tree numbers rounded to float32
func numsDiff(src, tree []string) string {
	cnt := map[string]int{}
	var f32 []string
	for _, x := range src {
		if strings.HasPrefix(x, "f32:") {
			f32 = append(f32, x)
		} else {
			cnt[x]++
		}
	}
	var rest []string
	for _, x := range tree {
		if cnt[x] > 0 {
			cnt[x]--
		} else {
			rest = append(rest, x)
		}
	}
	for k, c := range cnt {
		if c > 0 {
			return "only in value: " + short(k)
		}
	}
	c32 := map[string]int{}
	for _, x := range f32 {
		c32[x]++
	}
	for _, x := range rest {
		r, ok := new(big.Rat).SetString(x)
		if !ok {
			return "only in tree: " + short(x)
		}
		f, _ := r.Float32()
		k := fmt.Sprintf("f32:%08x", math.Float32bits(f))
		if f == 0 { // the sign of zero is not a rational's business
			if c32["f32:00000000"] > 0 {
				k = "f32:00000000"
			} else {
				k = "f32:80000000"
			}
		}
		if c32[k] == 0 {
			return "only in tree: " + short(x)
		}
		c32[k]--
	}
	for k, c := range c32 {
		if c > 0 {
			return "only in value: " + k
		}
	}
	return ""
}

func short(s string) string {
	if len(s) > 60 {
		return fmt.Sprintf("%q...", s[:60])
	}
	return fmt.Sprintf("%q", s)
}

// ---- options ----

var mapStrType = reflect.TypeOf(map[string]interface{}(nil))

type nopts struct {
	mapStr, signed, raw2str, prefArr, zeroCopy bool
	sliceT                           string
}

func (n nopts) String() string {
	return fmt.Sprintf("MapType=%v SliceType=%s SignedInteger=%v RawToString=%v PreferArrayOverSlice=%v ZeroCopy=%v", map[bool]string{true: "map[string]interface{}", false: "map[interface{}]interface{}"}[n.mapStr], n.sliceT, n.signed, n.raw2str, n.prefArr, n.zeroCopy)
}

func applyNopts(h codec.Handle, n nopts) {
	bh := vhBasic(h)
	if n.mapStr {
		bh.MapType = mapStrType
	}
	bh.SignedInteger = n.signed
	bh.RawToString = n.raw2str
	bh.PreferArrayOverSlice = n.prefArr
	bh.ZeroCopy = n.zeroCopy // the tree may then hold views of the input: it must still be the same tree
}

func vhBasic(h codec.Handle) *codec.BasicHandle {
	switch x := h.(type) {
	case *codec.CborHandle:
		return &x.BasicHandle
	case *codec.MsgpackHandle:
		return &x.BasicHandle
	case *codec.BincHandle:
		return &x.BasicHandle
	case *codec.SimpleHandle:
		return &x.BasicHandle
	case *codec.JsonHandle:
		return &x.BasicHandle
	}
	panic("handle")
}

func hasBigUint(v reflect.Value) bool {
	big := false
	var walk func(v reflect.Value)
	walk = func(v reflect.Value) {
		t := v.Type()
		if t == vh.TimeType {
			return
		}
		switch t.Kind() {
		case reflect.Uint, reflect.Uint64, reflect.Uintptr:
			if v.Uint() >= 1<<63 {
				big = true
			}
		case reflect.Slice, reflect.Array:
			if t.Elem().Kind() == reflect.Uint8 {
				return
			}
			for i := 0; i < v.Len(); i++ {
				walk(v.Index(i))
			}
		case reflect.Map:
			it := v.MapRange()
			for it.Next() {
				walk(it.Key())
				walk(it.Value())
			}
		case reflect.Ptr:
			if !v.IsNil() {
				walk(v.Elem())
			}
		case reflect.Struct:
			for i := 0; i < t.NumField(); i++ {
				if t.Field(i).PkgPath == "" {
					walk(v.Field(i))
				}
			}
		}
	}
	walk(v)
	return big
}

// keeps F G T N: the tree F's decoder produces keeps the distinctions T needs when it is
// written again in G (the property's side condition, stated here once)
func keeps(F, G string, oF vh.Opts, n nopts, ti tinfo) bool {
	weF, _ := oF["WriteExt"].(bool)
	s2r, _ := oF["StringToRaw"].(bool)
	if F == "msgpack" && !weF && !n.raw2str && ti.hasStr {
		return false // legacy raw: strings come back as []byte; only RawToString restores them
	}
	if F == G {
		return true
	}
	if F == "msgpack" && !weF && ti.hasTime {
		return false // without WriteExt a time is written as a byte string: only msgpack reads a time out of it
	}
	if F == "json" {
		// json writes time and []byte as strings and non-string map keys as text: another format reads text
		return !ti.hasTime && !ti.hasBytes && !ti.nonStrKey
	}
	if s2r && !n.raw2str && ti.hasStr && G == "json" {
		return false // the tree holds []byte for strings: json writes base64
	}
	if n.raw2str && ti.hasBytes && G == "json" {
		return false // the tree holds strings for []byte: json reads base64 out of a string
	}
	if G == "json" && ti.hasFloatKey {
		return false
	}
	return true
}

func hasBigIntegralFloat(v reflect.Value) bool {
	bad := false
	vh.WalkFloats(v, func(x float64, bits int) {
		a := math.Abs(x)
		lim := float64(1 << 53)
		if bits == 32 {
			lim = 1 << 24
		}
		if a >= lim && a < 1e21 {
			bad = true
		}
	})
	return bad
}

// a float leaf with lo <= x < hi
func hasFloatIn(v reflect.Value, lo, hi float64) bool {
	bad := false
	vh.WalkFloats(v, func(x float64, _ int) {
		if x >= lo && x < hi {
			bad = true
		}
	})
	return bad
}

func hasMaxFloat32(v reflect.Value) bool {
	bad := false
	vh.WalkFloats(v, func(x float64, bits int) {
		if bits == 32 && math.Abs(x) == math.MaxFloat32 {
			bad = true
		}
	})
	return bad
}

var scalarLooking = []string{"true", "false", "1.50", "1e3", "-7", "0", "null", "12345678901234567890", "-0.0", "3.14159", "-", ".", "e5", "1.", "NaN"}

var escapedStrings = []string{"line1\nline2", "tab\there", "say \"hi\" twice", "back\\slash\\path", "<a href=\"x\">&amp;</a>", "ctl\x01\x1f end", "mixed \u00e9\n\t\"q\"", "\r\n\r\n", "x\ny"}

// forceStrings overwrites the settable string leaves that are not map keys with texts drawn from the pool
func forceStrings(r *vh.Rng, v reflect.Value, pool []string) {
	t := v.Type()
	if t == vh.TimeType {
		return
	}
	switch t.Kind() {
	case reflect.String:
		if v.CanSet() && r.Chance(2, 3) {
			v.SetString(pool[r.Intn(len(pool))])
		}
	case reflect.Slice, reflect.Array:
		if t.Elem().Kind() == reflect.Uint8 {
			return
		}
		for i := 0; i < v.Len(); i++ {
			forceStrings(r, v.Index(i), pool)
		}
	case reflect.Map:
		it := v.MapRange()
		type kv struct{ k, e reflect.Value }
		var upd []kv
		for it.Next() {
			e := reflect.New(t.Elem()).Elem()
			e.Set(it.Value())
			forceStrings(r, e, pool)
			upd = append(upd, kv{it.Key(), e})
		}
		for _, x := range upd {
			v.SetMapIndex(x.k, x.e)
		}
	case reflect.Ptr:
		if !v.IsNil() {
			forceStrings(r, v.Elem(), pool)
		}
	case reflect.Struct:
		for i := 0; i < t.NumField(); i++ {
			if t.Field(i).PkgPath == "" {
				forceStrings(r, v.Field(i), pool)
			}
		}
	}
}

// forceBigUint sets the first settable uint / uint64 / uintptr leaf to a value >= 2^63
func forceBigUint(r *vh.Rng, v reflect.Value) bool {
	t := v.Type()
	if t == vh.TimeType {
		return false
	}
	switch t.Kind() {
	case reflect.Uint, reflect.Uint64, reflect.Uintptr:
		if v.CanSet() {
			v.SetUint(1<<63 + r.U64()>>uint(1+r.Intn(63)))
			return true
		}
	case reflect.Slice, reflect.Array:
		if t.Elem().Kind() == reflect.Uint8 {
			return false
		}
		for i := 0; i < v.Len(); i++ {
			if forceBigUint(r, v.Index(i)) {
				return true
			}
		}
	case reflect.Map:
		it := v.MapRange()
		for it.Next() {
			e := reflect.New(t.Elem()).Elem()
			e.Set(it.Value())
			if forceBigUint(r, e) {
				v.SetMapIndex(it.Key(), e)
				return true
			}
		}
	case reflect.Ptr:
		if !v.IsNil() {
			return forceBigUint(r, v.Elem())
		}
	case reflect.Struct:
		for i := 0; i < t.NumField(); i++ {
			if t.Field(i).PkgPath == "" && forceBigUint(r, v.Field(i)) {
				return true
			}
		}
	}
	return false
}

func hasNonFinite(v reflect.Value) bool {
	bad := false
	vh.WalkFloats(v, func(x float64, _ int) {
		if x != x || math.IsInf(x, 0) {
			bad = true
		}
	})
	return bad
}

type ctx struct {
	force *forced
	sum *vh.Summary
	cv  *vh.Cases
	id  int
}

func timeNormG(G string) func(time.Time) time.Time {
	c := vh.FormatNorm(G, vh.Opts{})
	return c.Time
}

func composeNorm(a, b vh.NormCfg) vh.NormCfg {
	c := vh.NormCfg{NilToEmpty: a.NilToEmpty || b.NilToEmpty}
	c.Time = func(t time.Time) time.Time {
		if a.Time != nil {
			t = a.Time(t)
		}
		if b.Time != nil {
			t = b.Time(t)
		}
		return t
	}
	c.F32 = func(f float32) float32 {
		if a.F32 != nil {
			f = a.F32(f)
		}
		if b.F32 != nil {
			f = b.F32(f)
		}
		return f
	}
	c.F64 = func(f float64) float64 {
		if a.F64 != nil {
			f = a.F64(f)
		}
		if b.F64 != nil {
			f = b.F64(f)
		}
		return f
	}
	return c
}

func coqF(F string, o vh.Opts, n nopts) string {
	b := func(k string) string { v, _ := o[k].(bool); return vh.CoqBool(v) }
	cb := vh.CoqBool
	switch F {
	case "cbor":
		return fmt.Sprintf("(fcbor %s %s %s %s %s %s)", b("IndefiniteLength"), b("TimeRFC3339"), b("StringToRaw"), b("OptimumSize"), cb(n.signed), cb(n.raw2str))
	case "msgpack":
		return fmt.Sprintf("(fmsgpack %s %s %s %s %s %s)", b("WriteExt"), b("NoFixedNum"), b("PositiveIntUnsigned"), b("StringToRaw"), cb(n.raw2str), cb(n.signed))
	case "simple":
		return fmt.Sprintf("(fsimple %s %s %s)", b("StringToRaw"), cb(n.signed), cb(n.raw2str))
	case "binc":
		sym, _ := o["AsSymbols"].(int)
		return fmt.Sprintf("(fbinc %s %s %s %s)", cb(sym == 1), b("StringToRaw"), cb(n.signed), cb(n.raw2str))
	}
	return ""
}

func coqGopts(o vh.Opts) string {
	b := func(k string) string { v, _ := o[k].(bool); return vh.CoqBool(v) }
	return fmt.Sprintf("(mkgopts %s %s %s 0%%Z false)", b("StructToArray"), b("Canonical"), b("NilCollectionToZeroLength"))
}

// forced: a fixed (source format, target format, type, value) instead of a drawn one
type forced struct {
	F, G string
	t    reflect.Type
	v    reflect.Value
}

func (c *ctx) one(r *vh.Rng, idx int, wantModel bool) {
	sum := c.sum
	F := vh.Formats[idx%len(vh.Formats)]
	if c.force != nil {
		F = c.force.F
	}
	oF := vh.RandEncOpts(r, F)
	if F == "json" {
		delete(oF, "StringToRaw") // F01-s2r (known, C01)
		delete(oF, "IntegerAsString")
	}
	if r.Chance(1, 4) {
		oF["NilCollectionToZeroLength"] = true
	}
	if F == "binc" && r.Chance(1, 2) {
		oF["AsSymbols"] = 1
	}
	to := vh.TypeOpts{MaxDepth: 1 + r.Intn(3)}
	t := vh.StripOmitEmpty(vh.RandType(r, to, 0))
	if c.force != nil {
		t = c.force.t
	}
	var ti tinfo
	classify(t, &ti)
	n := nopts{signed: r.Chance(1, 3), raw2str: r.Chance(1, 3), prefArr: r.Chance(1, 4), zeroCopy: r.Chance(1, 3), sliceT: "[]interface{}"}
	n.mapStr = !ti.nonStrKey && r.Chance(1, 2)
	vo := vh.ValOpts{BigLens: r.Chance(1, 5), MaxLen: 4}
	if F == "json" {
		vo.NoNaN, vo.NoInf = true, true
	}
	// SignedInteger together with an unsigned value >= 2^63 is drawn on purpose: such a value has no int64,
	// and every format must then refuse the schema-less decode (never hand back a sign-flipped int64)
	v := vh.RandValue(r, t, vo)
	if c.force != nil {
		v = c.force.v
		n.signed = false
	}
	if n.signed && !hasBigUint(v) && r.Chance(1, 6) {
		forceBigUint(r, v)
	}
	// string VALUES (never map keys) that look like scalars: they must stay strings in the tree whatever the
	// options (json MapKeyAsString sniffs quoted map KEYS only)
	mkasF, _ := oF["MapKeyAsString"].(bool)
	if (F == "json" && mkasF && r.Chance(1, 2)) || r.Chance(1, 8) {
		forceStrings(r, v, scalarLooking)
	} else if (F == "json" && n.zeroCopy && r.Chance(2, 3)) || r.Chance(1, 8) {
		// several different strings that need unescaping in json (a ZeroCopy tree must not share scratch storage)
		forceStrings(r, v, escapedStrings)
	}
	signedOvf := n.signed && hasBigUint(v)
	if F == "json" && n.signed && hasFloatIn(v, 9223372036854775808.0, 18446744073709551616.0) {
		// json writes such a float as an integer literal (F15-1): under SignedInteger the literal exceeds MaxInt64
		signedOvf = true
	}
	cj := map[string]interface{}{"format": F, "opts": oF.String(), "nopts": n.String(), "type": t.String(), "seed_index": idx}
	hF := vh.NewHandle(F, oF)
	var enc []byte
	if err := codec.NewEncoderBytes(&enc, hF).Encode(v.Interface()); err != nil {
		cj["err"] = err.Error()
		sum.FailC("trans", "c15:"+F+":encode-error", "Encode of a supported value returned an error", cj)
		return
	}
	hx := vh.Hex(enc)
	if len(hx) > 2000 {
		hx = hx[:2000] + "..."
	}
	cj["bytes"] = hx
	// step 2: the generic tree
	hN := vh.NewHandle(F, oF)
	applyNopts(hN, n)
	var g interface{}
	if err := codec.NewDecoderBytes(enc, hN).Decode(&g); err != nil {
		cj["err"] = err.Error()
		cls := "c15:" + F + ":naked-decode-error"
		if signedOvf && (strings.Contains(err.Error(), "overflow") || strings.Contains(err.Error(), "ParseInt")) {
			// the documented outcome: SignedInteger cannot represent an unsigned value >= 2^63
			sum.Count("trans."+F, "trans/"+F+"/signed-overflow/"+vh.TypeShape(t)+"/"+oF.String())
			sum.Dist["trans.signed-overflow-error."+F]++
			return
		}
		sum.FailC("trans", cls, "Decode of an encoded value into interface{} returned an error", cj)
		return
	}
	cj["tree"] = trunc(vh.Canon(g), 1500)
	if signedOvf {
		// the decode went through: the number comparison below decides (a sign-flipped int64 differs)
		sum.Dist["trans.signed-bigint-decoded."+F]++
		cj["signed_overflow_input"] = true
	}
	nF := vh.FormatNorm(F, oF)
	// numbers and strings of the tree == those of the value
	var sl, tl leaves
	mkas, _ := oF["MapKeyAsString"].(bool)
	srcLeaves(v, nF, &sl, F == "json" && mkas, F == "json")
	treeLeaves(reflect.ValueOf(g), &tl)
	// the option vector decides the Go types of the tree's nodes
	kinds := map[string]bool{}
	treeKinds(reflect.ValueOf(g), kinds)
	bad := ""
	switch {
	case n.raw2str && kinds["[]uint8"]:
		bad = "RawToString:[]byte-leaf"
	case n.signed && kinds["uint64"]:
		bad = "SignedInteger:uint64-leaf"
	case !n.signed && (F == "cbor" || F == "simple" || F == "binc") && sl.hasUint && !kinds["uint64"]:
		bad = "SignedInteger-off:unsigned-leaf-not-uint64"
	case n.mapStr && kinds["map[interface {}]interface {}"]:
		bad = "MapType:map[interface{}]interface{}-node"
	case !n.mapStr && F != "json" && kinds["map[string]interface {}"]:
		bad = "MapType:map[string]interface{}-node"
	case n.prefArr && kinds["slice"]:
		bad = "PreferArrayOverSlice:slice-node"
	case !n.prefArr && kinds["array"]:
		bad = "PreferArrayOverSlice:array-node"
	}
	if bad != "" {
		sum.FailC("trans", "c15:"+F+":option-ignored:"+bad, "the generic tree holds a node of a Go type the schema-less options exclude", cj)
		return
	}
	if d := numsDiff(sl.nums, tl.nums); d != "" {
		cj["diff"] = d
		if F == "json" && hasBigIntegralFloat(v) {
			// root cause pinned by the input class: an integral float of magnitude >= 2^53 (float32: >= 2^24) below 1e21
			// is written without fraction or exponent, with shortest digits: DecodeNaked reads an INTEGER that is
			// another number than the float
			sum.FailC("trans", "c15:json:numbers:integral-float-written-as-integer-literal", "the number leaves of the generic tree differ (as exact rationals) from the number leaves of the value", cj)
			if c.force == nil {
				return
			}
			// forced case: go on - the tree (holding the literal's integer) must still transcode into the float type
		} else {
			sum.FailC("trans", "c15:"+F+":numbers", "the number leaves of the generic tree differ (as exact rationals) from the number leaves of the value", cj)
			return
		}
	}
	weF, _ := oF["WriteExt"].(bool)
	// json writes time / bytes as text, msgpack without WriteExt writes time as a byte string: the string
	// multiset is compared where the format keeps strings apart
	if (F != "json" && !(F == "msgpack" && !weF && ti.hasTime)) || (F == "json" && !ti.hasTime && !ti.hasBytes && !ti.nonStrKey) {
		if sa, _ := oF["StructToArray"].(bool); !sa {
			var names []string
			fieldNames(v, &names)
			sl.strs = append(sl.strs, names...)
		}
		if d := multisetDiff(sl.strs, tl.strs); d != "" {
			cj["diff"] = d
			sum.FailC("trans", "c15:"+F+":strings", "the strings / byte strings of the generic tree differ from those of the value", cj)
			return
		}
	}
	// a []byte leaf stays a []byte leaf (empty ones included: a nil []byte under NilCollectionToZeroLength is
	// zero-length BYTES in every format since F05-7 / F15-2) wherever the format keeps byte strings apart
	s2rF, _ := oF["StringToRaw"].(bool)
	if (F == "cbor" || F == "simple" || F == "binc" || (F == "msgpack" && weF && !ti.hasTime)) && !n.raw2str && !s2rF {
		if d := multisetDiff(sl.bytes, tl.bytes); d != "" {
			cj["diff"] = d
			sum.FailC("trans", "c15:"+F+":byte-strings", "the []byte leaves of the generic tree differ from the []byte leaves of the value", cj)
			return
		}
	}
	// step 3/4: re-encode in G, decode into T
	Gs := []string{F, vh.Formats[r.Intn(len(vh.Formats))]}
	if c.force != nil {
		Gs[1] = c.force.G
	}
	okAll := true
	for gi, G := range Gs {
		if gi == 1 && G == F {
			continue
		}
		if G == "json" && G != F && hasNonFinite(v) {
			sum.Dist["trans.nonfinite-to-json"]++
			continue // json has no NaN / infinities (written as null)
		}
		if F == "json" && G != F && hasMaxFloat32(v) {
			// json names a float32 by its shortest decimal; read as float64 the decimal 3.4028235e+38 lies above
			// MaxFloat32 and checkOverflow.Float32 of the binary drivers refuses it (C07 territory; observed, not filed)
			sum.Dist["trans.json-maxfloat32-to-binary"]++
			continue
		}
		if !keeps(F, G, oF, n, ti) {
			sum.Dist["trans.keeps-false."+F+"->"+G]++
			continue
		}
		oG := oF
		if G != F {
			oG = vh.RandEncOpts(r, G)
			delete(oG, "StringToRaw")
			delete(oG, "IntegerAsString")
			if nz, _ := oF["NilCollectionToZeroLength"].(bool); nz {
				oG["NilCollectionToZeroLength"] = true
			}
			if G == "json" {
				delete(oG, "MapKeyAsString")
			}
		} else if r.Bool() {
			oG = vh.CopyOpts(oF, "Canonical", r.Bool())
		}
		hG := vh.NewHandle(G, oG)
		cj2 := map[string]interface{}{"G": G, "optsG": oG.String()}
		for k, x := range cj {
			cj2[k] = x
		}
		var enc2 []byte
		if err := codec.NewEncoderBytes(&enc2, hG).Encode(g); err != nil {
			cj2["err"] = err.Error()
			sum.FailC("trans", "c15:"+F+"->"+G+":reencode-error", "Encode of the generic tree returned an error", cj2)
			okAll = false
			continue
		}
		dst := reflect.New(t)
		if err := codec.NewDecoderBytes(enc2, hG).Decode(dst.Interface()); err != nil {
			cj2["err"] = err.Error()
			cj2["bytes2"] = trunc(vh.Hex(enc2), 1500)
			cls := "c15:" + F + "->" + G + ":typed-decode-error:" + errKind(err)
			if F == "json" && (G == "cbor" || G == "binc" || G == "simple") && strings.Contains(err.Error(), "uint64 to int64 overflow") &&
				hasFloatIn(v, 9223372036854775808.0, 18446744073709551616.0) {
				// root cause pinned by the input class: the tree holds a uint64 >= 2^63 for the float (F15-1) and the
				// cbor / binc / simple drivers read an unsigned stream integer into a float through int64 (F07-7)
				cls = "c15:json->" + G + ":uint64>=2^63-into-float:int64-overflow"
			}
			sum.FailC("trans", cls, "Decode of the re-encoded generic tree into the original static type returned an error", cj2)
			okAll = false
			continue
		}
		want := vh.Norm(v, composeNorm(nF, vh.FormatNorm(G, oG)))
		if d := vh.FirstDiff(want, dst.Elem()); d != "" {
			cj2["diff"] = d
			sum.FailC("trans", "c15:"+F+"->"+G+":value:"+d, "the re-encoded generic tree decodes into the original static type as a different value", cj2)
			okAll = false
			continue
		}
		sum.Dist["trans.ok."+F+"->"+G]++
	}
	key := ""
	if okAll {
		key = "trans/" + F + "/" + vh.TypeShape(t) + "/" + oF.String() + "/" + n.String()
	}
	sum.Count("trans."+F, key)
	if idx < 3 {
		sum.Sample(cj)
	}
	// model case
	if wantModel && F != "json" {
		tyTerm, err := vh.CoqTy(t)
		it, ok := vh.ItemFromGo(g)
		if err == nil && ok {
			c.id++
			c.cv.Add(fmt.Sprintf("mkcase %d %s %s %s %s %s %s", c.id, coqF(F, oF, n), coqGopts(oF), vh.CoqBool(n.mapStr), tyTerm, vh.CoqVal(v), it.Coq()))
			sum.ModelCases++
		} else {
			sum.Dist["model.skipped"]++
		}
	}
}

// bigFloatStream: json writes an integral float in [2^63, 2^64) as an integer literal (F15-1), the tree holds a
// uint64 >= 2^63; written again in EVERY binary format (and json) it must decode into the float type, in scalar,
// pointer, slice, map value and struct field positions (F07-7 and its msgpack sibling).
func bigFloatStream(c *ctx, r *vh.Rng) {
	f64s := []float64{1e19, 9223372036854775808.0, 1.5e19, 18446744073709549568.0, 9.3e18, 12345678901234567890.0}
	type S struct {
		A int
		F float64
		G float32
	}
	idx := 1 << 20
	for _, G := range []string{"msgpack", "cbor", "binc", "simple", "json"} {
		for _, f := range f64s {
			f32 := float32(f)
			vals := []interface{}{f, &f, []float64{1, f, -2.5}, map[string]float64{"a": f, "b": 0.5}, S{A: 7, F: f, G: f32}, f32, []float32{f32, 1}, [2]float64{f, f}}
			for _, x := range vals {
				v := reflect.New(reflect.TypeOf(x)).Elem()
				v.Set(reflect.ValueOf(x))
				c.force = &forced{F: "json", G: G, t: v.Type(), v: v}
				c.one(r, idx, false)
				idx++
				c.sum.Dist["bigfloat.json->"+G]++
			}
		}
	}
	c.force = nil
}

func errKind(err error) string {
	s := err.Error()
	switch {
	case strings.Contains(s, "overflow"):
		return "overflow"
	case strings.Contains(s, "EOF"):
		return "eof"
	case strings.Contains(s, "invalid"), strings.Contains(s, "unrecognized"), strings.Contains(s, "expect"):
		return "descriptor"
	}
	return "other"
}

func trunc(s string, n int) string {
	if len(s) > n {
		return s[:n] + "..."
	}
	return s
}

var _ = bytes.Equal

func main() {
	nTrans := flag.Int("trans", 3000, "three-step transcodings over the five formats")
	nModel := flag.Int("model", 500, "how many of them are also written as Coq cases")
	cases := flag.String("cases", "/verif/build/c15/cases_c15", "directory for the model case files")
	flag.Parse()
	r := vh.NewRng(vh.SeedFromEnv())
	sum := vh.NewSummary("trans: v:T random (scalar map keys) -> Encode_F (random options) -> Decode into interface{} under a random schema-less option vector (MapType, SignedInteger, RawToString, PreferArrayOverSlice) -> Encode_G (G = F and a random G where keeps F G T) -> Decode into new(T) == v up to the losses of F then G; number leaves of the tree vs the value as exact rationals (math/big), strings / bytes as multisets. model: the tree as an item vs the Coq naked_tree of Generic to_item (cbor, msgpack, simple, binc). distinct_nontrivial = distinct (format, type shape, encoder option vector, schema-less option vector) tuples of fully successful evaluations")
	hdr := "From Coq Require Import List NArith ZArith.\nFrom Verif Require Import Wire.Item Generic.Types Generic.Enc C11.Corr C15.Corr.\nImport ListNotations."
	c := &ctx{sum: sum, cv: vh.NewCases(*cases, hdr, "C15.Corr.case", "C15.Corr.mismatches", 40)}
	for i := 0; i < *nTrans; i++ {
		c.one(r, i, sum.ModelCases < *nModel)
	}
	bigFloatStream(c, r.Fork())
	c.cv.Close()
	sum.Print()
}

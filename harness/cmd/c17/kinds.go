// kinds.go: custom-coded types of every underlying KIND that encodeValue / decodeValue look at BEFORE the function
// lookup (map, slice, []byte, array, chan; plus bool / float / string / int / uint8 kinded named types), each as
// Selfer (value and pointer receiver), Binary pair, Text pair, JSON pair, and the VALUE classes that can take an
// early exit there: nil, empty but not nil, the zero value, one element, two elements, a nil pointer to X.
//
// The hooks are generic (reflection): the custom form is a short string "<mech letter><canonical text of the value>"
// that is NOT the natural form of the kind (a Selfer map writes a string, not a map), so a value that was written
// without its encode hook cannot be read by its decode hook.
package main

import (
	"encoding/hex"
	"fmt"
	"reflect"
	"sort"
	"strconv"
	"strings"

	"verifharness/vh"

	"github.com/ugorji/go/codec"
)

func canon(v interface{}) string {
	rv := reflect.ValueOf(v)
	ints := func(n int, at func(i int) reflect.Value) string {
		s := make([]string, n)
		for i := range s {
			if e := at(i); e.Kind() != reflect.Ptr {
				s[i] = strconv.FormatInt(e.Int(), 10)
			} else if e.IsNil() {
				s[i] = "z"
			} else {
				s[i] = strconv.FormatInt(e.Elem().Int(), 10)
			}
		}
		return strings.Join(s, ",")
	}
	switch rv.Kind() {
	case reflect.Map:
		if rv.IsNil() {
			return "N"
		}
		var s []string
		for it := rv.MapRange(); it.Next(); {
			s = append(s, it.Key().String()+"="+strconv.FormatInt(it.Value().Int(), 10))
		}
		sort.Strings(s)
		return "M" + strings.Join(s, ",")
	case reflect.Slice:
		if rv.IsNil() {
			return "N"
		}
		if rv.Type().Elem().Kind() == reflect.Uint8 {
			return "Y" + hex.EncodeToString(rv.Bytes())
		}
		return "L" + ints(rv.Len(), rv.Index)
	case reflect.Array:
		return "A" + ints(rv.Len(), rv.Index)
	case reflect.Chan:
		if rv.IsNil() {
			return "N"
		}
		return "C" + strconv.Itoa(rv.Cap())
	case reflect.Bool:
		if rv.Bool() {
			return "T"
		}
		return "F"
	case reflect.Int, reflect.Int8, reflect.Int16, reflect.Int32, reflect.Int64:
		return "I" + strconv.FormatInt(rv.Int(), 10)
	case reflect.Uint, reflect.Uint8, reflect.Uint16, reflect.Uint32, reflect.Uint64:
		return "U" + strconv.FormatUint(rv.Uint(), 10)
	case reflect.Float32, reflect.Float64:
		return "D" + strconv.FormatInt(int64(rv.Float()*4), 10)
	case reflect.String:
		return "S" + rv.String()
	case reflect.Struct: // struct{ P *int }
		return "P" + ints(1, rv.Field)
	}
	panic("canon: " + rv.Kind().String())
}

// parse sets *p from the custom form s = prefix + canon(value)
func parse(p interface{}, s, prefix string) error {
	rv := reflect.ValueOf(p).Elem()
	if !strings.HasPrefix(s, prefix) || len(s) < len(prefix)+1 {
		return fmt.Errorf("malformed custom form for %s", rv.Type().Name())
	}
	c, body := s[len(prefix)], s[len(prefix)+1:]
	var parts []string
	if body != "" {
		parts = strings.Split(body, ",")
	}
	atoi := func(s string) int64 { n, _ := strconv.ParseInt(s, 10, 64); return n }
	switch {
	case c == 'N':
		rv.Set(reflect.Zero(rv.Type()))
	case c == 'M' && rv.Kind() == reflect.Map:
		m := reflect.MakeMap(rv.Type())
		for _, kv := range parts {
			i := strings.IndexByte(kv, '=')
			m.SetMapIndex(reflect.ValueOf(kv[:i]), reflect.ValueOf(int(atoi(kv[i+1:]))))
		}
		rv.Set(m)
	case c == 'Y' && rv.Kind() == reflect.Slice:
		b, _ := hex.DecodeString(body)
		if b == nil {
			b = []byte{}
		}
		rv.SetBytes(b)
	case c == 'L' && rv.Kind() == reflect.Slice:
		sl := reflect.MakeSlice(rv.Type(), len(parts), len(parts))
		for i, x := range parts {
			sl.Index(i).SetInt(atoi(x))
		}
		rv.Set(sl)
	case c == 'A' && rv.Kind() == reflect.Array:
		for i, x := range parts {
			setIntOrPtr(rv.Index(i), x)
		}
	case c == 'P' && rv.Kind() == reflect.Struct:
		setIntOrPtr(rv.Field(0), body)
	case c == 'C' && rv.Kind() == reflect.Chan:
		rv.Set(reflect.MakeChan(rv.Type(), int(atoi(body))))
	case c == 'T' || c == 'F':
		rv.SetBool(c == 'T')
	case c == 'I':
		rv.SetInt(atoi(body))
	case c == 'U':
		rv.SetUint(uint64(atoi(body)))
	case c == 'D':
		rv.SetFloat(float64(atoi(body)) / 4)
	case c == 'S':
		rv.SetString(body)
	default:
		return fmt.Errorf("malformed custom form for %s", rv.Type().Name())
	}
	return nil
}

func setIntOrPtr(v reflect.Value, x string) {
	n, _ := strconv.ParseInt(x, 10, 64)
	switch {
	case v.Kind() != reflect.Ptr:
		v.SetInt(n)
	case x == "z":
		v.Set(reflect.Zero(v.Type()))
	default:
		v.Set(reflect.New(v.Type().Elem()))
		v.Elem().SetInt(n)
	}
}

func encSelf(e *codec.Encoder, v interface{}) { encCalls["selfer"]++; e.MustEncode("s" + canon(v)) }
func decSelf(d *codec.Decoder, p interface{}) {
	decCalls["selfer"]++
	var s string
	d.MustDecode(&s)
	if err := parse(p, s, "s"); err != nil {
		panic(err)
	}
}
func mBin(v interface{}) ([]byte, error) { encCalls["binary"]++; return []byte("b" + canon(v)), nil }
func uBin(p interface{}, b []byte) error { decCalls["binary"]++; return parse(p, string(b), "b") }
func mTxt(v interface{}) ([]byte, error) { encCalls["text"]++; return []byte("t" + canon(v)), nil }
func uTxt(p interface{}, b []byte) error { decCalls["text"]++; return parse(p, string(b), "t") }
func mJs(v interface{}) ([]byte, error) {
	encCalls["json"]++
	return []byte(`"j` + canon(v) + `"`), nil
}
func uJs(p interface{}, b []byte) error {
	decCalls["json"]++
	s := string(b)
	if len(s) < 2 || s[0] != '"' || s[len(s)-1] != '"' {
		return fmt.Errorf("malformed custom json form")
	}
	return parse(p, s[1:len(s)-1], "j")
}

// ---- map kinded ----
type MapS map[string]int
type MapSP map[string]int
type MapB map[string]int
type MapT map[string]int
type MapJ map[string]int
type MapA map[string]int

func (x MapS) CodecEncodeSelf(e *codec.Encoder)   { encSelf(e, x) }
func (x *MapS) CodecDecodeSelf(d *codec.Decoder)  { decSelf(d, x) }
func (x *MapSP) CodecEncodeSelf(e *codec.Encoder) { encSelf(e, *x) }
func (x *MapSP) CodecDecodeSelf(d *codec.Decoder) { decSelf(d, x) }
func (x MapB) MarshalBinary() ([]byte, error)     { return mBin(x) }
func (x *MapB) UnmarshalBinary(b []byte) error    { return uBin(x, b) }
func (x MapT) MarshalText() ([]byte, error)       { return mTxt(x) }
func (x *MapT) UnmarshalText(b []byte) error      { return uTxt(x, b) }
func (x MapJ) MarshalJSON() ([]byte, error)       { return mJs(x) }
func (x *MapJ) UnmarshalJSON(b []byte) error      { return uJs(x, b) }
func (x MapA) MarshalBinary() ([]byte, error)     { return mBin(x) }
func (x *MapA) UnmarshalBinary(b []byte) error    { return uBin(x, b) }
func (x MapA) MarshalText() ([]byte, error)       { return mTxt(x) }
func (x *MapA) UnmarshalText(b []byte) error      { return uTxt(x, b) }
func (x MapA) MarshalJSON() ([]byte, error)       { return mJs(x) }
func (x *MapA) UnmarshalJSON(b []byte) error      { return uJs(x, b) }

// ---- slice kinded ----
type SliS []int
type SliSP []int
type SliB []int
type SliT []int
type SliJ []int
type SliA []int

func (x SliS) CodecEncodeSelf(e *codec.Encoder)   { encSelf(e, x) }
func (x *SliS) CodecDecodeSelf(d *codec.Decoder)  { decSelf(d, x) }
func (x *SliSP) CodecEncodeSelf(e *codec.Encoder) { encSelf(e, *x) }
func (x *SliSP) CodecDecodeSelf(d *codec.Decoder) { decSelf(d, x) }
func (x SliB) MarshalBinary() ([]byte, error)     { return mBin(x) }
func (x *SliB) UnmarshalBinary(b []byte) error    { return uBin(x, b) }
func (x SliT) MarshalText() ([]byte, error)       { return mTxt(x) }
func (x *SliT) UnmarshalText(b []byte) error      { return uTxt(x, b) }
func (x SliJ) MarshalJSON() ([]byte, error)       { return mJs(x) }
func (x *SliJ) UnmarshalJSON(b []byte) error      { return uJs(x, b) }
func (x SliA) MarshalBinary() ([]byte, error)     { return mBin(x) }
func (x *SliA) UnmarshalBinary(b []byte) error    { return uBin(x, b) }
func (x SliA) MarshalText() ([]byte, error)       { return mTxt(x) }
func (x *SliA) UnmarshalText(b []byte) error      { return uTxt(x, b) }
func (x SliA) MarshalJSON() ([]byte, error)       { return mJs(x) }
func (x *SliA) UnmarshalJSON(b []byte) error      { return uJs(x, b) }

// ---- []byte kinded ----
type BytS []byte
type BytA []byte

func (x BytS) CodecEncodeSelf(e *codec.Encoder)  { encSelf(e, x) }
func (x *BytS) CodecDecodeSelf(d *codec.Decoder) { decSelf(d, x) }
func (x BytA) MarshalBinary() ([]byte, error)    { return mBin(x) }
func (x *BytA) UnmarshalBinary(b []byte) error   { return uBin(x, b) }
func (x BytA) MarshalText() ([]byte, error)      { return mTxt(x) }
func (x *BytA) UnmarshalText(b []byte) error     { return uTxt(x, b) }
func (x BytA) MarshalJSON() ([]byte, error)      { return mJs(x) }
func (x *BytA) UnmarshalJSON(b []byte) error     { return uJs(x, b) }

// ---- array kinded ----
type ArrS [2]int
type ArrSP [2]int
type ArrB [2]int
type ArrT [2]int
type ArrJ [2]int
type ArrA [2]int

func (x ArrS) CodecEncodeSelf(e *codec.Encoder)   { encSelf(e, x) }
func (x *ArrS) CodecDecodeSelf(d *codec.Decoder)  { decSelf(d, x) }
func (x *ArrSP) CodecEncodeSelf(e *codec.Encoder) { encSelf(e, *x) }
func (x *ArrSP) CodecDecodeSelf(d *codec.Decoder) { decSelf(d, x) }
func (x ArrB) MarshalBinary() ([]byte, error)     { return mBin(x) }
func (x *ArrB) UnmarshalBinary(b []byte) error    { return uBin(x, b) }
func (x ArrT) MarshalText() ([]byte, error)       { return mTxt(x) }
func (x *ArrT) UnmarshalText(b []byte) error      { return uTxt(x, b) }
func (x ArrJ) MarshalJSON() ([]byte, error)       { return mJs(x) }
func (x *ArrJ) UnmarshalJSON(b []byte) error      { return uJs(x, b) }
func (x ArrA) MarshalBinary() ([]byte, error)     { return mBin(x) }
func (x *ArrA) UnmarshalBinary(b []byte) error    { return uBin(x, b) }
func (x ArrA) MarshalText() ([]byte, error)       { return mTxt(x) }
func (x *ArrA) UnmarshalText(b []byte) error      { return uTxt(x, b) }
func (x ArrA) MarshalJSON() ([]byte, error)       { return mJs(x) }
func (x *ArrA) UnmarshalJSON(b []byte) error      { return uJs(x, b) }

// ---- pointer-shaped struct and array (one pointer: the value is held directly in an interface word) ----
type PsS struct{ P *int }
type PsSP struct{ P *int }
type PsA struct{ P *int }
type ApS [1]*int
type ApA [1]*int

func (x PsS) CodecEncodeSelf(e *codec.Encoder)   { encSelf(e, x) }
func (x *PsS) CodecDecodeSelf(d *codec.Decoder)  { decSelf(d, x) }
func (x *PsSP) CodecEncodeSelf(e *codec.Encoder) { encSelf(e, *x) }
func (x *PsSP) CodecDecodeSelf(d *codec.Decoder) { decSelf(d, x) }
func (x PsA) MarshalBinary() ([]byte, error)     { return mBin(x) }
func (x *PsA) UnmarshalBinary(b []byte) error    { return uBin(x, b) }
func (x PsA) MarshalText() ([]byte, error)       { return mTxt(x) }
func (x *PsA) UnmarshalText(b []byte) error      { return uTxt(x, b) }
func (x PsA) MarshalJSON() ([]byte, error)       { return mJs(x) }
func (x *PsA) UnmarshalJSON(b []byte) error      { return uJs(x, b) }
func (x ApS) CodecEncodeSelf(e *codec.Encoder)   { encSelf(e, x) }
func (x *ApS) CodecDecodeSelf(d *codec.Decoder)  { decSelf(d, x) }
func (x ApA) MarshalBinary() ([]byte, error)     { return mBin(x) }
func (x *ApA) UnmarshalBinary(b []byte) error    { return uBin(x, b) }
func (x ApA) MarshalText() ([]byte, error)       { return mTxt(x) }
func (x *ApA) UnmarshalText(b []byte) error      { return uTxt(x, b) }
func (x ApA) MarshalJSON() ([]byte, error)       { return mJs(x) }
func (x *ApA) UnmarshalJSON(b []byte) error      { return uJs(x, b) }

// ---- chan kinded (the custom form carries nil-ness and capacity only; the kind coding would consume the channel,
// so only mechanisms that apply in every format) ----
type ChS chan int
type ChSP chan int
type ChA chan int

func (x ChS) CodecEncodeSelf(e *codec.Encoder)   { encSelf(e, x) }
func (x *ChS) CodecDecodeSelf(d *codec.Decoder)  { decSelf(d, x) }
func (x *ChSP) CodecEncodeSelf(e *codec.Encoder) { encSelf(e, *x) }
func (x *ChSP) CodecDecodeSelf(d *codec.Decoder) { decSelf(d, x) }
func (x ChA) MarshalBinary() ([]byte, error)     { return mBin(x) }
func (x *ChA) UnmarshalBinary(b []byte) error    { return uBin(x, b) }
func (x ChA) MarshalText() ([]byte, error)       { return mTxt(x) }
func (x *ChA) UnmarshalText(b []byte) error      { return uTxt(x, b) }
func (x ChA) MarshalJSON() ([]byte, error)       { return mJs(x) }
func (x *ChA) UnmarshalJSON(b []byte) error      { return uJs(x, b) }

// ---- scalar kinded (bool, float, string, int, uint8): the zero value is the class of interest ----
type BoolT bool
type BoolS bool
type FltB float64
type FltS float64
type StrS string
type StrJ string
type StrSP string
type IntJ int
type IntB int64
type U8T uint8
type U8S uint8

func (x BoolT) MarshalText() ([]byte, error)      { return mTxt(x) }
func (x *BoolT) UnmarshalText(b []byte) error     { return uTxt(x, b) }
func (x BoolS) CodecEncodeSelf(e *codec.Encoder)  { encSelf(e, x) }
func (x *BoolS) CodecDecodeSelf(d *codec.Decoder) { decSelf(d, x) }
func (x FltB) MarshalBinary() ([]byte, error)     { return mBin(x) }
func (x *FltB) UnmarshalBinary(b []byte) error    { return uBin(x, b) }
func (x FltS) CodecEncodeSelf(e *codec.Encoder)   { encSelf(e, x) }
func (x *FltS) CodecDecodeSelf(d *codec.Decoder)  { decSelf(d, x) }
func (x StrS) CodecEncodeSelf(e *codec.Encoder)   { encSelf(e, x) }
func (x *StrS) CodecDecodeSelf(d *codec.Decoder)  { decSelf(d, x) }
func (x *StrSP) CodecEncodeSelf(e *codec.Encoder) { encSelf(e, *x) }
func (x *StrSP) CodecDecodeSelf(d *codec.Decoder) { decSelf(d, x) }
func (x StrJ) MarshalJSON() ([]byte, error)       { return mJs(x) }
func (x *StrJ) UnmarshalJSON(b []byte) error      { return uJs(x, b) }
func (x IntJ) MarshalJSON() ([]byte, error)       { return mJs(x) }
func (x *IntJ) UnmarshalJSON(b []byte) error      { return uJs(x, b) }
func (x IntB) MarshalBinary() ([]byte, error)     { return mBin(x) }
func (x *IntB) UnmarshalBinary(b []byte) error    { return uBin(x, b) }
func (x U8T) MarshalText() ([]byte, error)        { return mTxt(x) }
func (x *U8T) UnmarshalText(b []byte) error       { return uTxt(x, b) }
func (x U8S) CodecEncodeSelf(e *codec.Encoder)    { encSelf(e, x) }
func (x *U8S) CodecDecodeSelf(d *codec.Decoder)   { decSelf(d, x) }

func kindTypes() []xtype {
	marsh := func(bin, js, txt bool) func(string) string {
		return func(f string) string {
			switch {
			case f != "json" && bin:
				return "binary"
			case f == "json" && js:
				return "json"
			case f == "json" && txt:
				return "text"
			}
			return "none"
		}
	}
	self := func(string) string { return "selfer" }
	B, T, J, A := marsh(true, false, false), marsh(false, false, true), marsh(false, true, false), marsh(true, true, true)
	t := func(name string, v interface{}, w func(string) string) xtype {
		return xtype{name, reflect.TypeOf(v), w, ""}
	}
	return []xtype{
		t("MapS", MapS(nil), self), t("MapSP", MapSP(nil), self), t("MapB", MapB(nil), B), t("MapT", MapT(nil), T), t("MapJ", MapJ(nil), J), t("MapA", MapA(nil), A),
		t("SliS", SliS(nil), self), t("SliSP", SliSP(nil), self), t("SliB", SliB(nil), B), t("SliT", SliT(nil), T), t("SliJ", SliJ(nil), J), t("SliA", SliA(nil), A),
		t("BytS", BytS(nil), self), t("BytA", BytA(nil), A),
		t("ArrS", ArrS{}, self), t("ArrSP", ArrSP{}, self), t("ArrB", ArrB{}, B), t("ArrT", ArrT{}, T), t("ArrJ", ArrJ{}, J), t("ArrA", ArrA{}, A),
		t("PsS", PsS{}, self), t("PsSP", PsSP{}, self), t("PsA", PsA{}, A), t("ApS", ApS{}, self), t("ApA", ApA{}, A),
		t("ChS", ChS(nil), self), t("ChSP", ChSP(nil), self), t("ChA", ChA(nil), A),
		t("BoolT", BoolT(false), T), t("BoolS", BoolS(false), self), t("FltB", FltB(0), B), t("FltS", FltS(0), self),
		t("StrS", StrS(""), self), t("StrSP", StrSP(""), self), t("StrJ", StrJ(""), J), t("IntJ", IntJ(0), J), t("IntB", IntB(0), B),
		t("U8T", U8T(0), T), t("U8S", U8S(0), self),
	}
}

// value classes per kind.  nilptr: a nil *X where the position has a pointer to X (other positions are skipped).
func classesOf(k reflect.Kind) []string {
	switch k {
	case reflect.Map, reflect.Slice, reflect.Chan:
		return []string{"nil", "empty", "one", "two", "nilptr"}
	}
	return []string{"zero", "val", "nilptr"}
}

// mkClass: an addressable X of value class cls; i distinguishes the elements of one container
func mkClass(xt reflect.Type, cls string, i int) reflect.Value {
	v := reflect.New(xt).Elem()
	if cls == "nil" || cls == "zero" || cls == "nilptr" {
		return v
	}
	n := map[string]int{"empty": 0, "one": 1, "two": 2, "val": 2}[cls]
	switch xt.Kind() {
	case reflect.Map:
		v.Set(reflect.MakeMap(xt))
		for j := 0; j < n; j++ {
			v.SetMapIndex(reflect.ValueOf("k"+strconv.Itoa(j)), reflect.ValueOf(10*i+j+1))
		}
	case reflect.Slice:
		v.Set(reflect.MakeSlice(xt, n, n))
		for j := 0; j < n; j++ {
			if xt.Elem().Kind() == reflect.Uint8 {
				v.Index(j).SetUint(uint64(10*i + j + 1))
			} else {
				v.Index(j).SetInt(int64(10*i + j + 1))
			}
		}
	case reflect.Array:
		for j := 0; j < xt.Len(); j++ {
			setIntOrPtr(v.Index(j), strconv.Itoa(10*i+j+1))
		}
	case reflect.Chan:
		v.Set(reflect.MakeChan(xt, n+1+i)) // the capacity is what the custom form carries
		for j := 0; j < n; j++ {
			v.Send(reflect.ValueOf(j + 1))
		}
	case reflect.Bool:
		v.SetBool(true)
	case reflect.Int, reflect.Int8, reflect.Int16, reflect.Int32, reflect.Int64:
		v.SetInt(int64(7 + i))
	case reflect.Uint, reflect.Uint8, reflect.Uint16, reflect.Uint32, reflect.Uint64:
		v.SetUint(uint64(7 + i))
	case reflect.Float32, reflect.Float64:
		v.SetFloat(1.25 + float64(i))
	case reflect.String:
		v.SetString("s" + strconv.Itoa(i))
	case reflect.Struct:
		setIntOrPtr(v.Field(0), strconv.Itoa(7+i))
	}
	return v
}

// how many X the position holds
func holds(p string) int {
	switch p {
	case "slice", "array", "pifaceslice", "ifaceslice", "mapvalfield":
		return 2
	}
	return 1
}

func hasPtrToX(p string) bool {
	return p == "ptr" || p == "ptrptr" || p == "ifaceptr" || p == "mapifaceptr"
}

// nilLike: nil, or pointers / interfaces leading to nil (all of them are written as nil)
func nilLike(v reflect.Value) bool {
	if !v.IsValid() {
		return true
	}
	switch v.Kind() {
	case reflect.Ptr, reflect.Interface:
		return v.IsNil() || nilLike(v.Elem())
	case reflect.Map, reflect.Slice, reflect.Chan:
		return v.IsNil()
	}
	return false
}

// eqv: vh.DeepEq extended with channels (equal when both nil or both non-nil with the same capacity: what the custom
// forms above carry) and, when nilLoose (the nil value classes), a pointer or interface leading to a nil pointer / map /
// slice / chan taken as a nil pointer / interface (nil is written as nil: neither the dynamic type nor the number of
// pointers before the nil is on the wire).
func eqv(a, b reflect.Value, nilLoose bool) bool {
	if a.IsValid() && b.IsValid() && a.Type() == b.Type() && (a.Kind() == reflect.Interface || a.Kind() == reflect.Ptr) {
		if nilLoose && (nilLike(a) || nilLike(b)) {
			return nilLike(a) && nilLike(b)
		}
		if a.IsNil() || b.IsNil() {
			return a.IsNil() && b.IsNil()
		}
		return eqv(a.Elem(), b.Elem(), nilLoose)
	}
	if a.IsValid() != b.IsValid() {
		return false
	}
	if !a.IsValid() {
		return true
	}
	if a.Type() != b.Type() {
		return false
	}
	if a.Type() == vh.TimeType {
		return vh.DeepEq(a, b, vh.EqOpts{})
	}
	switch a.Kind() {
	case reflect.Chan:
		if a.IsNil() || b.IsNil() {
			return a.IsNil() && b.IsNil()
		}
		return a.Cap() == b.Cap()
	case reflect.Slice:
		if a.IsNil() != b.IsNil() || a.Len() != b.Len() {
			return false
		}
		fallthrough
	case reflect.Array:
		for i := 0; i < a.Len(); i++ {
			if !eqv(a.Index(i), b.Index(i), nilLoose) {
				return false
			}
		}
		return true
	case reflect.Map:
		if a.IsNil() != b.IsNil() || a.Len() != b.Len() {
			return false
		}
		for it := a.MapRange(); it.Next(); {
			found := false
			for jt := b.MapRange(); jt.Next(); {
				if eqv(it.Key(), jt.Key(), nilLoose) && eqv(it.Value(), jt.Value(), nilLoose) {
					found = true
					break
				}
			}
			if !found {
				return false
			}
		}
		return true
	case reflect.Struct:
		for i := 0; i < a.NumField(); i++ {
			if a.Type().Field(i).PkgPath == "" && !eqv(a.Field(i), b.Field(i), nilLoose) {
				return false
			}
		}
		return true
	}
	return vh.DeepEq(a, b, vh.EqOpts{})
}

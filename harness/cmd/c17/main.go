// c17: correspondence and property oracle for C17 (custom codecs are chosen
// symmetrically in every position).
//
// Fixed types, one per mechanism x receiver kind, each hook counting its calls:
// BytesExt / InterfaceExt / SelfExt registered on the handle, Selfer,
// Binary/Text/JSON marshaler pairs (value or pointer receivers), all three
// pairs at once, one-sided implementations. Each is placed in every position
// (top, *X, **X, struct field, []X, [2]X, map[string]X, map[X]string,
// interface{}(X), interface{}(*X)), root passed by value or by pointer, five
// formats. Oracle, directly on the implementation: the encode hook ran iff the
// decode hook ran; Decode(Encode(place(p,x))) == place(p,x); the mechanism used
// is the one the documented precedence prescribes for what the type implements
// and what is registered. The mechanism observed at top level, with the
// typeInfo flags read through the verif hook, is compared in Coq with
// Gen.Choice (the translated guard chains).
package main

import (
	"bytes"
	"flag"
	"fmt"
	"reflect"
	"strconv"
	"strings"
	"time"

	"verifharness/vh"

	"github.com/ugorji/go/codec"
)

// ---- call counters ----

var encCalls, decCalls = map[string]int{}, map[string]int{}

func resetCalls() { encCalls, decCalls = map[string]int{}, map[string]int{} }

func sumCalls(m map[string]int) (n int, which string) {
	for k, v := range m {
		if v > 0 {
			n += v
			if !strings.Contains(which, k) {
				which += k + " "
			}
		}
	}
	return n, strings.TrimSpace(which)
}

// ---- the types ----

// extension targets: plain structs, the extension is registered on the handle
type EB struct{ A int } // BytesExt (binc, msgpack, simple) / InterfaceExt (cbor, json)
type ES struct{ A int } // SelfExt

type extFn struct{}

func (extFn) WriteExt(v interface{}) []byte {
	encCalls["ext"]++
	var a int
	switch x := v.(type) {
	case EB:
		a = x.A
	case *EB:
		a = x.A
	}
	return []byte(strconv.Itoa(a))
}
func (extFn) ReadExt(dst interface{}, src []byte) {
	decCalls["ext"]++
	a, _ := strconv.Atoi(string(src))
	dst.(*EB).A = a
}
func (extFn) ConvertExt(v interface{}) interface{} {
	encCalls["ext"]++
	switch x := v.(type) {
	case EB:
		return int64(x.A)
	case *EB:
		return int64(x.A)
	}
	return nil
}
func (extFn) UpdateExt(dst interface{}, src interface{}) {
	decCalls["ext"]++
	switch x := src.(type) {
	case int64:
		dst.(*EB).A = int(x)
	case uint64:
		dst.(*EB).A = int(x)
	case float64:
		dst.(*EB).A = int(x)
	}
}

// Selfer: encode on the value, decode on the pointer (only *SV is a Selfer) / both on the pointer
type SV struct{ A int }

func (x SV) CodecEncodeSelf(e *codec.Encoder) { encCalls["selfer"]++; e.MustEncode(int64(x.A) + 1000) }
func (x *SV) CodecDecodeSelf(d *codec.Decoder) {
	decCalls["selfer"]++
	var v int64
	d.MustDecode(&v)
	x.A = int(v - 1000)
}

type SP struct{ A int }

func (x *SP) CodecEncodeSelf(e *codec.Encoder) { encCalls["selfer"]++; e.MustEncode(int64(x.A) + 1000) }
func (x *SP) CodecDecodeSelf(d *codec.Decoder) {
	decCalls["selfer"]++
	var v int64
	d.MustDecode(&v)
	x.A = int(v - 1000)
}

func bin(a int) []byte { return []byte("b" + strconv.Itoa(a)) }
func unbin(b []byte, p string) int {
	a, _ := strconv.Atoi(strings.TrimPrefix(string(b), p))
	return a
}

// Binary
type BV struct{ A int }

func (x BV) MarshalBinary() ([]byte, error)  { encCalls["binary"]++; return bin(x.A), nil }
func (x *BV) UnmarshalBinary(b []byte) error { decCalls["binary"]++; x.A = unbin(b, "b"); return nil }

type BP struct{ A int }

func (x *BP) MarshalBinary() ([]byte, error) { encCalls["binary"]++; return bin(x.A), nil }
func (x *BP) UnmarshalBinary(b []byte) error { decCalls["binary"]++; x.A = unbin(b, "b"); return nil }

// Text
type TV struct{ A int }

func (x TV) MarshalText() ([]byte, error) {
	encCalls["text"]++
	return []byte("t" + strconv.Itoa(x.A)), nil
}
func (x *TV) UnmarshalText(b []byte) error { decCalls["text"]++; x.A = unbin(b, "t"); return nil }

type TP struct{ A int }

func (x *TP) MarshalText() ([]byte, error) {
	encCalls["text"]++
	return []byte("t" + strconv.Itoa(x.A)), nil
}
func (x *TP) UnmarshalText(b []byte) error { decCalls["text"]++; x.A = unbin(b, "t"); return nil }

// JSON
type JV struct{ A int }

func (x JV) MarshalJSON() ([]byte, error) {
	encCalls["json"]++
	return []byte(`"j` + strconv.Itoa(x.A) + `"`), nil
}
func (x *JV) UnmarshalJSON(b []byte) error {
	decCalls["json"]++
	x.A = unbin([]byte(strings.Trim(string(b), `"`)), "j")
	return nil
}

type JP struct{ A int }

func (x *JP) MarshalJSON() ([]byte, error) {
	encCalls["json"]++
	return []byte(`"j` + strconv.Itoa(x.A) + `"`), nil
}
func (x *JP) UnmarshalJSON(b []byte) error {
	decCalls["json"]++
	x.A = unbin([]byte(strings.Trim(string(b), `"`)), "j")
	return nil
}

// all three pairs
type ALL struct{ A int }

func (x ALL) MarshalBinary() ([]byte, error)  { encCalls["binary"]++; return bin(x.A), nil }
func (x *ALL) UnmarshalBinary(b []byte) error { decCalls["binary"]++; x.A = unbin(b, "b"); return nil }
func (x ALL) MarshalText() ([]byte, error) {
	encCalls["text"]++
	return []byte("t" + strconv.Itoa(x.A)), nil
}
func (x *ALL) UnmarshalText(b []byte) error { decCalls["text"]++; x.A = unbin(b, "t"); return nil }
func (x ALL) MarshalJSON() ([]byte, error) {
	encCalls["json"]++
	return []byte(`"j` + strconv.Itoa(x.A) + `"`), nil
}
func (x *ALL) UnmarshalJSON(b []byte) error {
	decCalls["json"]++
	x.A = unbin([]byte(strings.Trim(string(b), `"`)), "j")
	return nil
}

// Selfer and all marshalers: Selfer wins
type SALL struct{ A int }

func (x *SALL) CodecEncodeSelf(e *codec.Encoder) {
	encCalls["selfer"]++
	e.MustEncode(int64(x.A) + 1000)
}
func (x *SALL) CodecDecodeSelf(d *codec.Decoder) {
	decCalls["selfer"]++
	var v int64
	d.MustDecode(&v)
	x.A = int(v - 1000)
}
func (x SALL) MarshalBinary() ([]byte, error)  { encCalls["binary"]++; return bin(x.A), nil }
func (x *SALL) UnmarshalBinary(b []byte) error { decCalls["binary"]++; x.A = unbin(b, "b"); return nil }
func (x SALL) MarshalText() ([]byte, error) {
	encCalls["text"]++
	return []byte("t" + strconv.Itoa(x.A)), nil
}
func (x *SALL) UnmarshalText(b []byte) error { decCalls["text"]++; x.A = unbin(b, "t"); return nil }

// one-sided: only the marshal halves / only the unmarshal halves -> the kind (struct) both ways
type OM struct{ A int }

func (x OM) MarshalBinary() ([]byte, error) { encCalls["binary"]++; return bin(x.A), nil }
func (x OM) MarshalText() ([]byte, error)   { encCalls["text"]++; return []byte("t"), nil }
func (x OM) MarshalJSON() ([]byte, error)   { encCalls["json"]++; return []byte(`"j"`), nil }

type OU struct{ A int }

func (x *OU) UnmarshalBinary(b []byte) error { decCalls["binary"]++; return nil }
func (x *OU) UnmarshalText(b []byte) error   { decCalls["text"]++; return nil }
func (x *OU) UnmarshalJSON(b []byte) error   { decCalls["json"]++; return nil }

// extension registered on a type that is also a Selfer and a BinaryMarshaler: the extension wins
type EALL struct{ A int }

func (x *EALL) CodecEncodeSelf(e *codec.Encoder) {
	encCalls["selfer"]++
	e.MustEncode(int64(x.A) + 1000)
}
func (x *EALL) CodecDecodeSelf(d *codec.Decoder) {
	decCalls["selfer"]++
	var v int64
	d.MustDecode(&v)
	x.A = int(v - 1000)
}

type extEALL struct{}

func (extEALL) WriteExt(v interface{}) []byte {
	encCalls["ext"]++
	if p, ok := v.(*EALL); ok {
		return []byte(strconv.Itoa(p.A))
	}
	return []byte(strconv.Itoa(v.(EALL).A))
}
func (extEALL) ReadExt(dst interface{}, src []byte) {
	decCalls["ext"]++
	dst.(*EALL).A, _ = strconv.Atoi(string(src))
}
func (extEALL) ConvertExt(v interface{}) interface{} {
	encCalls["ext"]++
	if p, ok := v.(*EALL); ok {
		return int64(p.A)
	}
	return int64(v.(EALL).A)
}
func (extEALL) UpdateExt(dst interface{}, src interface{}) {
	decCalls["ext"]++
	switch x := src.(type) {
	case int64:
		dst.(*EALL).A = int(x)
	case uint64:
		dst.(*EALL).A = int(x)
	case float64:
		dst.(*EALL).A = int(x)
	}
}

// named scalar-kind types with custom codecs (the interesting map keys: kMapCanonical orders them by kind value
// and must still write them through their hook)
type NT int

func (x NT) MarshalText() ([]byte, error) {
	encCalls["text"]++
	return []byte("t" + strconv.Itoa(int(x))), nil
}
func (x *NT) UnmarshalText(b []byte) error { decCalls["text"]++; *x = NT(unbin(b, "t")); return nil }

type NB string

func (x NB) MarshalBinary() ([]byte, error) {
	encCalls["binary"]++
	return []byte("b" + string(x)), nil
}
func (x *NB) UnmarshalBinary(b []byte) error {
	decCalls["binary"]++
	*x = NB(strings.TrimPrefix(string(b), "b"))
	return nil
}

type NS int32

func (x NS) CodecEncodeSelf(e *codec.Encoder) { encCalls["selfer"]++; e.MustEncode(int64(x) + 1000) }
func (x *NS) CodecDecodeSelf(d *codec.Decoder) {
	decCalls["selfer"]++
	var v int64
	d.MustDecode(&v)
	*x = NS(v - 1000)
}

type NALL uint16

func (x NALL) MarshalBinary() ([]byte, error) { encCalls["binary"]++; return bin(int(x)), nil }
func (x *NALL) UnmarshalBinary(b []byte) error {
	decCalls["binary"]++
	*x = NALL(unbin(b, "b"))
	return nil
}
func (x NALL) MarshalText() ([]byte, error) {
	encCalls["text"]++
	return []byte("t" + strconv.Itoa(int(x))), nil
}
func (x *NALL) UnmarshalText(b []byte) error {
	decCalls["text"]++
	*x = NALL(unbin(b, "t"))
	return nil
}
func (x NALL) MarshalJSON() ([]byte, error) {
	encCalls["json"]++
	return []byte(`"j` + strconv.Itoa(int(x)) + `"`), nil
}
func (x *NALL) UnmarshalJSON(b []byte) error {
	decCalls["json"]++
	*x = NALL(unbin([]byte(strings.Trim(string(b), `"`)), "j"))
	return nil
}

// a small pointer-free Selfer whose custom form is a map with a NAMED key type: its CodecDecodeSelf re-enters the
// Decoder on the general (reflection) map path while the enclosing value is being decoded
type smKey string

type SM struct{ X, Y int32 }

func (s SM) CodecEncodeSelf(e *codec.Encoder) {
	encCalls["selfer"]++
	e.MustEncode(map[smKey]int32{"x": s.X, "y": s.Y + 7})
}
func (s *SM) CodecDecodeSelf(d *codec.Decoder) {
	decCalls["selfer"]++
	var m map[smKey]int32
	d.MustDecode(&m)
	s.X, s.Y = m["x"], m["y"]-7
}

// a Selfer that re-enters the Encoder / Decoder with ANOTHER pointer type at the same address (the usual way of
// reusing the default struct coding): under CheckCircularRef the two references differ in type only
type SR struct{ A int }
type plainSR SR

func (x *SR) CodecEncodeSelf(e *codec.Encoder) { encCalls["selfer"]++; e.MustEncode((*plainSR)(x)) }
func (x *SR) CodecDecodeSelf(d *codec.Decoder) { decCalls["selfer"]++; d.MustDecode((*plainSR)(x)) }

// marshalers whose encoded form is EMPTY but not nil for the zero value (names end in 0: the sweep uses A = 0)
type TE0 struct{ A int }

func (x TE0) MarshalText() ([]byte, error) {
	encCalls["text"]++
	if x.A == 0 {
		return []byte{}, nil
	}
	return []byte("t" + strconv.Itoa(x.A)), nil
}
func (x *TE0) UnmarshalText(b []byte) error {
	decCalls["text"]++
	if len(b) == 0 {
		x.A = 0
	} else {
		x.A = unbin(b, "t")
	}
	return nil
}

type BE0 struct{ A int }

func (x BE0) MarshalBinary() ([]byte, error) {
	encCalls["binary"]++
	if x.A == 0 {
		return []byte{}, nil
	}
	return bin(x.A), nil
}
func (x *BE0) UnmarshalBinary(b []byte) error {
	decCalls["binary"]++
	if len(b) == 0 {
		x.A = 0
	} else {
		x.A = unbin(b, "b")
	}
	return nil
}

// named string with an empty text form for ""
type NTE0 string

func (x NTE0) MarshalText() ([]byte, error)  { encCalls["text"]++; return []byte(string(x)), nil }
func (x *NTE0) UnmarshalText(b []byte) error { decCalls["text"]++; *x = NTE0(string(b)); return nil }

type xtype struct {
	name string
	rt   reflect.Type
	// what the documented precedence prescribes: per format class (binary handle, json, other text)
	want func(format string) string // ext selfer binary json text none
	ext  string                     // "", bytes, self, eall
}

func xtypes() []xtype {
	marsh := func(bin, js, txt bool) func(string) string {
		return func(f string) string {
			switch {
			case f != "json" && bin:
				return "binary"
			case f == "json" && js:
				return "json"
			case f == "json" && txt:
				return "text"
			}
			return "none"
		}
	}
	c := func(s string) func(string) string { return func(string) string { return s } }
	return []xtype{
		{"EB", reflect.TypeOf(EB{}), c("ext"), "bytes"},
		{"ES", reflect.TypeOf(ES{}), c("ext"), "self"},
		{"EALL", reflect.TypeOf(EALL{}), c("ext"), "eall"},
		{"SV", reflect.TypeOf(SV{}), c("selfer"), ""},
		{"SP", reflect.TypeOf(SP{}), c("selfer"), ""},
		{"SM", reflect.TypeOf(SM{}), c("selfer"), ""},
		{"SR", reflect.TypeOf(SR{}), c("selfer"), ""},
		{"SALL", reflect.TypeOf(SALL{}), c("selfer"), ""},
		{"BV", reflect.TypeOf(BV{}), marsh(true, false, false), ""},
		{"BP", reflect.TypeOf(BP{}), marsh(true, false, false), ""},
		{"TV", reflect.TypeOf(TV{}), marsh(false, false, true), ""},
		{"TP", reflect.TypeOf(TP{}), marsh(false, false, true), ""},
		{"JV", reflect.TypeOf(JV{}), marsh(false, true, false), ""},
		{"JP", reflect.TypeOf(JP{}), marsh(false, true, false), ""},
		{"ALL", reflect.TypeOf(ALL{}), marsh(true, true, true), ""},
		{"OM", reflect.TypeOf(OM{}), c("none"), ""},
		{"OU", reflect.TypeOf(OU{}), c("none"), ""},
		{"time", reflect.TypeOf(time.Time{}), c("none"), ""},
		{"TE0", reflect.TypeOf(TE0{}), marsh(false, false, true), ""},
		{"BE0", reflect.TypeOf(BE0{}), marsh(true, false, false), ""},
		{"NTE0", reflect.TypeOf(NTE0("")), marsh(false, false, true), ""},
		{"NT", reflect.TypeOf(NT(0)), marsh(false, false, true), ""},
		{"NB", reflect.TypeOf(NB("")), marsh(true, false, false), ""},
		{"NS", reflect.TypeOf(NS(0)), c("selfer"), ""},
		{"NALL", reflect.TypeOf(NALL(0)), marsh(true, true, true), ""},
	}
}

func newHandle(format string, o vh.Opts) codec.Handle {
	h := vh.NewHandle(format, o)
	if nar, _ := o["NoAddressableReadonly"].(bool); nar {
		switch x := h.(type) {
		case *codec.CborHandle:
			x.NoAddressableReadonly = true
		case *codec.JsonHandle:
			x.NoAddressableReadonly = true
		case *codec.MsgpackHandle:
			x.NoAddressableReadonly = true
		case *codec.BincHandle:
			x.NoAddressableReadonly = true
		case *codec.SimpleHandle:
			x.NoAddressableReadonly = true
		}
	}
	if tnb, _ := o["TimeNotBuiltin"].(bool); tnb {
		switch x := h.(type) {
		case *codec.CborHandle:
			x.TimeNotBuiltin = true
		case *codec.JsonHandle:
			x.TimeNotBuiltin = true
		case *codec.MsgpackHandle:
			x.TimeNotBuiltin = true
		case *codec.BincHandle:
			x.TimeNotBuiltin = true
		case *codec.SimpleHandle:
			x.TimeNotBuiltin = true
		}
	}
	reg := func(rt reflect.Type, tag uint64, b codec.BytesExt, i codec.InterfaceExt) {
		var err error
		switch x := h.(type) {
		case *codec.CborHandle:
			err = x.SetInterfaceExt(rt, tag, i)
		case *codec.JsonHandle:
			err = x.SetInterfaceExt(rt, tag, i)
		case *codec.MsgpackHandle:
			err = x.SetBytesExt(rt, tag, b)
		case *codec.BincHandle:
			err = x.SetBytesExt(rt, tag, b)
		case *codec.SimpleHandle:
			err = x.SetBytesExt(rt, tag, b)
		}
		if err != nil {
			panic(err)
		}
	}
	reg(reflect.TypeOf(EB{}), 41, extFn{}, extFn{})
	reg(reflect.TypeOf(EALL{}), 42, extEALL{}, extEALL{})
	// SelfExt
	switch x := h.(type) {
	case *codec.CborHandle:
		x.SetInterfaceExt(reflect.TypeOf(ES{}), 43, codec.SelfExt)
	case *codec.JsonHandle:
		x.SetInterfaceExt(reflect.TypeOf(ES{}), 43, codec.SelfExt)
	case *codec.MsgpackHandle:
		x.SetBytesExt(reflect.TypeOf(ES{}), 43, codec.SelfExt)
	case *codec.BincHandle:
		x.SetBytesExt(reflect.TypeOf(ES{}), 43, codec.SelfExt)
	case *codec.SimpleHandle:
		x.SetBytesExt(reflect.TypeOf(ES{}), 43, codec.SelfExt)
	}
	return h
}

// ---- positions ----

// mapvalfield / ifacefield: X is a FIELD (between two int64 neighbours) of a small struct that is a map value / held by
// value in an interface{}: the struct is decoded in scratch space the hook of X must not disturb
// mapiface / mapifaceptr: X / *X held in the interface{} VALUE of a map with a named key type (general map path),
// decoded into a map that already holds a value of that type under the key
var positions = []string{"top", "ptr", "ptrptr", "field", "slice", "array", "mapval", "mapkey", "iface", "ifaceptr", "mapvalfield", "ifacefield", "mapiface", "mapifaceptr",
	// a pointer leading to an interface{} that holds X by value: top level, field, slice element, map value
	"pifacetop", "pifacefield", "pifaceslice", "pifacemap",
	// X held by value in an element of a []interface{}
	"ifaceslice"}

type mapKeyName string

// mkSample: an addressable X set to sample a (the struct / scalar kinded types of the first sweep)
func mkSample(xt reflect.Type, a int) reflect.Value {
	v := reflect.New(xt).Elem()
	if xt == reflect.TypeOf(time.Time{}) {
		v.Set(reflect.ValueOf(time.Unix(int64(1700000000+a), 0).UTC()))
	} else {
		switch xt.Kind() {
		case reflect.Struct:
			v.Field(0).SetInt(int64(a))
		case reflect.Int, reflect.Int8, reflect.Int16, reflect.Int32, reflect.Int64:
			v.SetInt(int64(a))
		case reflect.Uint, reflect.Uint8, reflect.Uint16, reflect.Uint32, reflect.Uint64:
			v.SetUint(uint64(a))
		case reflect.String:
			if a != 0 {
				v.SetString("s" + strconv.Itoa(a))
			}
		}
	}
	return v
}

// place builds the value holding x (x: addressable reflect.Value of type X set to sample a) at position p, and a
// destination of the same shape for Decode (pointer to it is returned).
func place(p string, xt reflect.Type, mk func(d int) reflect.Value, nilptr bool) (src reflect.Value, dst reflect.Value) {
	x := mk(0)
	addr := func(v reflect.Value) reflect.Value { // the pointer to X the position holds
		if nilptr {
			return reflect.Zero(reflect.PointerTo(xt))
		}
		return v.Addr()
	}
	ifaceT := reflect.TypeOf((*interface{})(nil)).Elem()
	switch p {
	case "top":
		return x, reflect.New(xt)
	case "ptr":
		return addr(x), reflect.New(reflect.PointerTo(xt))
	case "ptrptr":
		pp := reflect.New(reflect.PointerTo(xt))
		pp.Elem().Set(addr(x))
		return pp, reflect.New(reflect.PointerTo(reflect.PointerTo(xt)))
	case "field":
		st := reflect.StructOf([]reflect.StructField{{Name: "F", Type: xt}, {Name: "G", Type: reflect.TypeOf(0)}})
		s := reflect.New(st).Elem()
		s.Field(0).Set(x)
		s.Field(1).SetInt(7)
		return s, reflect.New(st)
	case "slice":
		s := reflect.MakeSlice(reflect.SliceOf(xt), 2, 2)
		s.Index(0).Set(x)
		s.Index(1).Set(mk(1))
		return s, reflect.New(reflect.SliceOf(xt))
	case "array":
		s := reflect.New(reflect.ArrayOf(2, xt)).Elem()
		s.Index(0).Set(x)
		s.Index(1).Set(mk(1))
		return s, reflect.New(reflect.ArrayOf(2, xt))
	case "mapval":
		mt := reflect.MapOf(reflect.TypeOf(""), xt)
		m := reflect.MakeMap(mt)
		m.SetMapIndex(reflect.ValueOf("k"), x)
		return m, reflect.New(mt)
	case "mapkey":
		mt := reflect.MapOf(xt, reflect.TypeOf(""))
		m := reflect.MakeMap(mt)
		m.SetMapIndex(x, reflect.ValueOf("v"))
		return m, reflect.New(mt)
	case "iface":
		st := reflect.StructOf([]reflect.StructField{{Name: "I", Type: ifaceT}})
		s := reflect.New(st).Elem()
		s.Field(0).Set(x)
		d := reflect.New(st)
		d.Elem().Field(0).Set(reflect.New(xt).Elem()) // zero X inside the interface
		return s, d
	case "pifacetop", "pifacefield", "pifaceslice", "pifacemap":
		pif := reflect.PointerTo(ifaceT)
		newPI := func(v reflect.Value) reflect.Value { // *interface{} holding v
			pi := reflect.New(ifaceT)
			pi.Elem().Set(v)
			return pi
		}
		zero := func() reflect.Value { return newPI(reflect.New(xt).Elem()) }
		switch p {
		case "pifacetop":
			return newPI(x), zero() // Encode(&iface), Decode(&iface2) with iface2 holding a zero X
		case "pifacefield":
			st := reflect.StructOf([]reflect.StructField{{Name: "P", Type: pif}, {Name: "G", Type: reflect.TypeOf(0)}})
			sv := reflect.New(st).Elem()
			sv.Field(0).Set(newPI(x))
			sv.Field(1).SetInt(7)
			d := reflect.New(st)
			d.Elem().Field(0).Set(zero())
			return sv, d
		case "pifaceslice":
			sl := reflect.MakeSlice(reflect.SliceOf(pif), 2, 2)
			sl.Index(0).Set(newPI(x))
			sl.Index(1).Set(newPI(mk(1)))
			d := reflect.New(reflect.SliceOf(pif))
			ds := reflect.MakeSlice(reflect.SliceOf(pif), 2, 2)
			ds.Index(0).Set(zero())
			ds.Index(1).Set(zero())
			d.Elem().Set(ds)
			return sl, d
		default:
			mt := reflect.MapOf(reflect.TypeOf(""), pif)
			m := reflect.MakeMap(mt)
			m.SetMapIndex(reflect.ValueOf("k"), newPI(x))
			d := reflect.New(mt)
			d.Elem().Set(reflect.MakeMap(mt))
			d.Elem().SetMapIndex(reflect.ValueOf("k"), zero())
			return m, d
		}
	case "ifaceslice":
		st := reflect.SliceOf(ifaceT)
		sl := reflect.MakeSlice(st, 2, 2)
		sl.Index(0).Set(x)
		sl.Index(1).Set(mk(1))
		d := reflect.New(st)
		ds := reflect.MakeSlice(st, 2, 2)
		ds.Index(0).Set(reflect.New(xt).Elem())
		ds.Index(1).Set(reflect.New(xt).Elem())
		d.Elem().Set(ds)
		return sl, d
	case "mapiface", "mapifaceptr":
		mt := reflect.MapOf(reflect.TypeOf(mapKeyName("")), ifaceT)
		m := reflect.MakeMap(mt)
		d := reflect.New(mt)
		d.Elem().Set(reflect.MakeMap(mt))
		k := reflect.ValueOf(mapKeyName("k"))
		if p == "mapiface" {
			m.SetMapIndex(k, x)
			d.Elem().SetMapIndex(k, reflect.New(xt).Elem())
		} else {
			m.SetMapIndex(k, addr(x))
			d.Elem().SetMapIndex(k, reflect.New(xt))
		}
		return m, d
	case "mapvalfield", "ifacefield":
		in := reflect.StructOf([]reflect.StructField{{Name: "A", Type: reflect.TypeOf(int64(0))}, {Name: "F", Type: xt}, {Name: "B", Type: reflect.TypeOf(int64(0))}})
		v := reflect.New(in).Elem()
		v.Field(0).SetInt(1111)
		v.Field(1).Set(x)
		v.Field(2).SetInt(2222)
		if p == "mapvalfield" {
			mt := reflect.MapOf(reflect.TypeOf(""), in)
			m := reflect.MakeMap(mt)
			m.SetMapIndex(reflect.ValueOf("outer1"), v)
			v2 := reflect.New(in).Elem()
			v2.Field(0).SetInt(3333)
			v2.Field(1).Set(mk(1))
			v2.Field(2).SetInt(4444)
			m.SetMapIndex(reflect.ValueOf("outer2"), v2)
			return m, reflect.New(mt)
		}
		st := reflect.StructOf([]reflect.StructField{{Name: "I", Type: ifaceT}})
		s := reflect.New(st).Elem()
		s.Field(0).Set(v)
		d := reflect.New(st)
		d.Elem().Field(0).Set(reflect.New(in).Elem())
		return s, d
	case "ifaceptr":
		st := reflect.StructOf([]reflect.StructField{{Name: "I", Type: ifaceT}})
		s := reflect.New(st).Elem()
		s.Field(0).Set(addr(x))
		d := reflect.New(st)
		d.Elem().Field(0).Set(reflect.New(xt))
		return s, d
	}
	panic(p)
}

var mechCode = map[string]int{"none": 0, "ext": 1, "selfer": 2, "binary": 3, "json": 4, "text": 5}

func observed(m map[string]int) string {
	n, which := sumCalls(m)
	if n == 0 {
		return "none"
	}
	return which
}

func coqFlags(f codec.VerifTypeFlags, checkExt string) string {
	b := vh.CoqBool
	return fmt.Sprintf("(mkflags %s %s %s %s %s %s %s %s %s %s %s %s %s %s %s %s %s %s %s %s %s %s %s %s)",
		b(f.IsTime), b(f.IsRaw), b(f.IsRawExt), b(f.ExtRegistered), checkExt, b(f.TimeBuiltin), b(f.BinaryEncoding), b(f.Json), b(f.RkStruct), b(f.RkArray),
		b(f.Selfer), b(f.SelferPtr), b(f.BinaryMarshaler), b(f.BinaryMarshalerPtr), b(f.BinaryUnmarshaler), b(f.BinaryUnmarshalerPtr),
		b(f.JsonMarshaler), b(f.JsonMarshalerPtr), b(f.JsonUnmarshaler), b(f.JsonUnmarshalerPtr),
		b(f.TextMarshaler), b(f.TextMarshalerPtr), b(f.TextUnmarshaler), b(f.TextUnmarshalerPtr))
}

// runner: the state shared by the streams
type runner struct {
	sum *vh.Summary
	cv  *vh.Cases
	id  int
}

// one places X (made by mk; value class cls) at position p, encodes it with the root passed by value or by pointer,
// decodes it back and applies the oracle: Decode succeeds on what Encode wrote; the same kind of hook ran on both
// sides, the same number of times; the round trip is the identity; the hook is the one the documented precedence
// prescribes and it ran once per X held (never for a nil X / nil *X: nil is written as nil).
func (r *runner) one(stream, format string, o vh.Opts, h codec.Handle, xt xtype, p string, byPtr bool, cls string, mk func(d int) reflect.Value) {
	sum := r.sum
	want := xt.want(format)
	isNil := cls == "nil" || cls == "nilptr"
	if isNil {
		want = "none"
	}
	src, dst := place(p, xt.rt, mk, cls == "nilptr")
	var in interface{} = src.Interface()
	if byPtr {
		if !src.CanAddr() {
			pv := reflect.New(src.Type())
			pv.Elem().Set(src)
			src = pv.Elem()
		}
		in = src.Addr().Interface()
	}
	cj := map[string]interface{}{"format": format, "opts": o.String(), "type": xt.name, "position": p, "root_by_pointer": byPtr, "want": want}
	if cls != "" {
		cj["value_class"] = cls
	}
	resetCalls()
	var out []byte
	err := codec.NewEncoderBytes(&out, h).Encode(in)
	encObs := observed(encCalls)
	encN, _ := sumCalls(encCalls)
	cls2 := fmt.Sprintf("%s:%s", xt.name, p)
	if cls != "" {
		// kinds stream: the root cause is a matter of (kind of X, value class, mechanism); type and position are in the case
		cls2 = fmt.Sprintf("%s:%s:%s", xt.rt.Kind(), cls, xt.want(format))
	}
	if err != nil {
		cj["err"] = fmt.Sprint(err)
		sum.FailC(stream, "encode-error:"+cls2, "Encode of a custom-coded type failed in this position", cj)
		return
	}
	resetCalls()
	err = codec.NewDecoderBytes(out, h).Decode(dst.Interface())
	decObs := observed(decCalls)
	decN, _ := sumCalls(decCalls)
	cj["enc_hook"], cj["dec_hook"], cj["bytes"] = encObs, decObs, vh.Hex(out)
	cj["enc_hook_calls"], cj["dec_hook_calls"] = encN, decN
	wantN := 0
	if want != "none" {
		wantN = holds(p)
	}
	same := func() bool {
		if stream == "positions" {
			return vh.DeepEq(dst.Elem(), derefTo(src, dst.Elem().Type()), vh.EqOpts{})
		}
		return eqv(dst.Elem(), derefTo(src, dst.Elem().Type()), isNil)
	}
	nz, _ := o["NilCollectionToZeroLength"].(bool)
	switch {
	case nz && cls == "nil" && xt.want(format) != "none" && encN == 0 && (err != nil || decN > 0):
		// F17-4: encodeValue writes a nil map / slice / chan as an EMPTY collection before the function lookup, for a
		// custom-coded type too; the decoder runs the type's decode hook on that item
		if err != nil {
			cj["err"] = fmt.Sprint(err)
		}
		sum.FailC(stream, "nil-as-empty-bypasses-encode-hook:"+xt.rt.Kind().String(), "with NilCollectionToZeroLength a nil value of a custom-coded map / slice / chan type is written as an empty collection without its encode hook, and read with its decode hook", cj)
	case err != nil:
		cj["err"] = fmt.Sprint(err)
		sum.FailC(stream, "decode-error:"+cls2, "Decode of what Encode produced failed in this position", cj)
	case encObs != decObs:
		sum.FailC(stream, "asymmetric:"+cls2, "the custom encode hook and the custom decode hook did not both run", cj)
	case encN != decN:
		sum.FailC(stream, "asymmetric-count:"+cls2, "the custom encode hook and the custom decode hook did not run the same number of times", cj)
	case !same():
		cj["got"] = fmt.Sprintf("%+v", dst.Elem().Interface())
		sum.FailC(stream, "roundtrip:"+cls2, "Decode(Encode(place(p,x))) differs from place(p,x)", cj)
	case encObs != want:
		c := "precedence:" + want + "-not-selected"
		sum.FailC(stream, c, "the mechanism used is not the one the documented precedence prescribes", cj)
	case encN != wantN:
		cj["want_hook_calls"] = wantN
		sum.FailC(stream, "hook-count:"+cls2, "the custom hook did not run exactly once per value of the type held at this position", cj)
	}
	// model case: the mechanism observed at top level vs Gen.Choice on the flags read through the hook
	if p == "top" && !byPtr {
		f := codec.VerifTypeFlagsOf(h, xt.rt)
		if xt.name == "time" && err == nil {
			// time's own marshalers carry no counters: recognise the mechanism by the bytes
			t := src.Interface().(time.Time)
			if mb, e := t.MarshalBinary(); e == nil && f.BinaryEncoding {
				var viaBin []byte
				if codec.NewEncoderBytes(&viaBin, h).Encode(mb) == nil && bytes.Equal(viaBin, out) {
					encObs, decObs = "binary", "binary"
				}
			}
			if mj, e := t.MarshalJSON(); e == nil && f.Json && !f.TimeBuiltin && bytes.Equal(bytes.TrimSpace(out), mj) {
				encObs, decObs = "json", "json" // (the native json form is the same text)
			}
		}
		ec, ok1 := mechCode[encObs]
		dc, ok2 := mechCode[decObs]
		if !ok1 || !ok2 {
			sum.FailC(stream, "several-hooks:"+cls2, "more than one kind of custom hook ran for one value", cj)
		} else if err != nil && decN == 0 {
			// Decode failed (reported above) before any user hook was reached: which mechanism ran was not observed
		} else {
			// the step before the lookup (Gen/ChoicePre.v): kind of X, nil-ness, NilCollectionToZeroLength, element uint8
			kind, u8 := "KOther", false
			switch xt.rt.Kind() {
			case reflect.Map:
				kind = "KMap"
			case reflect.Slice:
				kind, u8 = "KSlice", xt.rt.Elem().Kind() == reflect.Uint8 && xt.rt.Elem().PkgPath() == ""
			case reflect.Chan:
				kind, u8 = "KChan", xt.rt.Elem().Kind() == reflect.Uint8 && xt.rt.Elem().PkgPath() == ""
			}
			r.cv.Add(fmt.Sprintf("mkcase %d %s %s %s %s %d %d %s %s %s %s", r.id, coqFlags(f, "enc_fn_checkExt"), coqFlags(f, "dec_fn_checkExt"), vh.CoqBool(f.EncBuiltin), vh.CoqBool(f.DecBuiltin), ec, dc,
				kind, vh.CoqBool(cls == "nil"), vh.CoqBool(nz), vh.CoqBool(u8)))
			sum.ModelCases++
		}
	}
	r.id++
	if cls == "" {
		sum.Count(stream+"."+format, fmt.Sprintf("%s/%s/%v/%s/%s", xt.name, p, byPtr, format, encObs))
	} else {
		sum.Count(stream+"."+format, fmt.Sprintf("%s/%s/%s/%v/%s/%s", xt.name, cls, p, byPtr, format, encObs))
	}
	sum.Dist["mech."+encObs]++
	if r.id%211 == 0 {
		sum.Sample(cj)
	}
}

func main() {
	rounds := flag.Int("rounds", 2, "option vectors per format")
	cases := flag.String("cases", "/verif/build/c17/cases", "directory for the model case files")
	flag.Parse()
	rg := vh.NewRng(vh.SeedFromEnv())
	sum := vh.NewSummary("positions: 25 types (a Selfer re-entering with another pointer type at the same address, a Selfer that re-enters the Decoder on a general-path map, Text / Binary marshalers whose form is empty-not-nil for the zero value, named scalar-kind types with Text / Binary / Selfer / all pairs, BytesExt/InterfaceExt, SelfExt, ext+Selfer, Selfer value/pointer receiver, Selfer+marshalers, Binary/Text/JSON marshaler pairs with value and pointer receivers, all three pairs, marshal-only, unmarshal-only, time.Time) x 19 positions (X by value in a []interface{} element; *interface{} holding X at top level / in a field / slice / map; incl. the interface{} value of a named-key map, pre-populated; a field of a small struct that is a map value / held by value in an interface{}) x root by value / by pointer x 5 formats x option vectors (Canonical on in every second round, TimeNotBuiltin in rounds 2 and 3 of every four, CheckCircularRef from round 1 on, NoAddressableReadonly in rounds 1 and 2); kinds (seed independent): 39 custom-coded types of map / slice / []byte / array / chan / one-pointer struct / one-pointer array / bool / float / string / int / uint8 KIND (Selfer by value and by pointer receiver, Binary, Text, JSON pair, all pairs) and the 25 types above x value classes (nil, empty-not-nil, one, two elements / zero value, non-zero / nil pointer to X) x the 19 positions x root by value / by pointer x 5 formats x 4 fixed option vectors (plain; Canonical + CheckCircularRef; NoAddressableReadonly + StructToArray; NilCollectionToZeroLength on the types custom-coded in the format); oracle on both: decode of own output succeeds, same hook kind and the same number of hook calls on both sides, exactly one call per X held (none for nil), round trip, documented precedence; distinct by (type, value class, position, root, format, mechanism observed)")
	cv := vh.NewCases(*cases, "From Coq Require Import List NArith Bool.\nFrom Verif Require Import Gen.Choice Gen.ChoicePre C17.Model C17.Corr.\nImport ListNotations.", "case", "mismatches", 60)
	r := &runner{sum: sum, cv: cv}
	for _, format := range vh.Formats {
		for round := 0; round < *rounds; round++ {
			o := vh.RandEncOpts(rg, format)
			delete(o, "StringToRaw")
			if round == 0 {
				o = vh.Opts{}
			}
			// Canonical changes how map keys and values are written (kMapCanonical): sweep it explicitly
			if round%2 == 1 {
				o["Canonical"] = true
			} else {
				delete(o, "Canonical")
			}
			// CheckCircularRef: references are compared by (type, address); a hook may re-enter with another type
			if round >= 1 {
				o["CheckCircularRef"] = true
			}
			// TimeNotBuiltin: time.Time is then a Binary/Text/JSON marshaler like any other (every third round)
			// NoAddressableReadonly: a non-addressable value is copied to make it addressable for a pointer-receiver hook
			if round%4 == 1 || round%4 == 2 {
				o["NoAddressableReadonly"] = true
			}
			if round%4 >= 2 { // rounds 2 (plain) and 3 (with Canonical)
				o["TimeNotBuiltin"] = true
			}
			for _, xt := range xtypes() {
				h := newHandle(format, o)
				want := xt.want(format)
				for _, p := range positions {
					if format == "json" && p == "mapkey" && want != "text" && want != "json" {
						continue // a json object key must be a string: only the text/json forms are
					}
					for _, byPtr := range []bool{false, true} {
						sample := 5 + r.id%50
						if strings.HasSuffix(xt.name, "0") {
							sample = 0 // the marshaled form is empty (not nil)
						}
						r.one("positions", format, o, h, xt, p, byPtr, "", func(d int) reflect.Value { return mkSample(xt.rt, sample+d) })
					}
				}
			}
		}
	}
	kindsStream(r)
	cv.Close()
	sum.Print()
}

// kindsStream: every underlying kind x every value class that encodeValue / decodeValue may treat before the
// function lookup; deterministic (no random choice).
func kindsStream(r *runner) {
	vectors := []vh.Opts{
		{},
		{"Canonical": true, "CheckCircularRef": true},
		{"NoAddressableReadonly": true, "StructToArray": true},
		// nil collections written as empty ones: here only the types that have a custom codec in the format (what is
		// coded by its kind legitimately comes back empty instead of nil)
		{"NilCollectionToZeroLength": true},
	}
	var types []xtype
	types = append(types, kindTypes()...)
	for _, xt := range xtypes() {
		if xt.ext == "" && xt.name != "time" { // (extensions: F17-1; time: no counters) stay in the first sweep
			types = append(types, xt)
		}
	}
	for _, format := range vh.Formats {
		for _, o := range vectors {
			for _, xt := range types {
				h := newHandle(format, o)
				want := xt.want(format)
				if nz, _ := o["NilCollectionToZeroLength"].(bool); nz && want == "none" {
					continue
				}
				for _, cls := range classesOf(xt.rt.Kind()) {
					for _, p := range positions {
						if cls == "nilptr" && !hasPtrToX(p) {
							continue
						}
						if p == "mapkey" {
							if !xt.rt.Comparable() {
								continue // maps and slices are not map keys
							}
							if format == "json" && (cls == "nil" || (want != "text" && want != "json")) {
								continue // a json object key must be a string: only the text/json forms are
							}
						}
						for _, byPtr := range []bool{false, true} {
							r.one("kinds", format, o, h, xt, p, byPtr, cls, func(d int) reflect.Value { return mkClass(xt.rt, cls, d) })
						}
					}
				}
			}
		}
	}
}

// derefTo strips pointers from v until it has type t (the decoded side is dst.Elem()).
func derefTo(v reflect.Value, t reflect.Type) reflect.Value {
	for v.Type() != t && v.Kind() == reflect.Ptr {
		v = v.Elem()
	}
	return v
}
